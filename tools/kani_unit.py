#!/usr/bin/env python3
"""Kani side of the machinery: copies /repo's *current working tree* to a scratch directory outside /repo
and /verif, overlays kani/verif_kani.rs as `#[cfg(kani)] mod verif_kani;`, runs the requested harnesses and
removes the scratch copy.  Loop-free full-domain harnesses are complete proofs; harnesses listed with a
`bound` are bounded stand-ins and are reported separately."""
import json, os, re, shutil, subprocess, sys, tempfile, time

HERE = os.path.dirname(os.path.abspath(__file__))
ROOT = os.path.dirname(HERE)
REPO = os.environ.get("VERIF_REPO", "/repo")
SETS = json.load(open(os.path.join(ROOT, "kani", "harness_sets.json")))


def _copy_repo(dst):
    for name in ("src", "cpp", "tools", "Cargo.toml", "Cargo.lock", "rust-toolchain", "tests"):
        p = os.path.join(REPO, name)
        if os.path.isdir(p):
            shutil.copytree(p, os.path.join(dst, name), ignore=shutil.ignore_patterns("target"))
        elif os.path.exists(p):
            shutil.copy(p, os.path.join(dst, name))
    # the harness module lives under `solver` so that it can reach the solver's private submodules
    shutil.copy(os.path.join(ROOT, "kani", "verif_kani.rs"), os.path.join(dst, "src", "solver", "verif_kani.rs"))
    lib = os.path.join(dst, "src", "solver", "mod.rs")
    s = open(lib).read()
    open(lib, "w").write(s + "\n#[cfg(kani)]\nmod verif_kani;\n")
    # Kani uses its own pinned toolchain
    tc = os.path.join(dst, "rust-toolchain")
    if os.path.exists(tc):
        os.remove(tc)


def run_harness_sets(names, tier="quick"):
    results = []
    harnesses = []
    for n in names:
        harnesses += SETS[n]["harnesses"]
    t0 = time.time()
    tmp = tempfile.mkdtemp(prefix="verif-kani-")
    try:
        _copy_repo(tmp)
        env = dict(os.environ, CARGO_NET_OFFLINE="true", RUSTFLAGS="-A dangerous_implicit_autorefs")
        tgt = os.path.join(ROOT, "build", "kani-target")
        cmd = ["cargo", "kani", "-p", "resolvo", "--target-dir", tgt, "-j", "8", "--output-format", "terse"]
        for h in harnesses:
            cmd += ["--harness", h]
        try:
            def _limit():
                import resource
                lim = int(os.environ.get("VERIF_KANI_MEM_GB", "20")) * (1 << 30)
                resource.setrlimit(resource.RLIMIT_AS, (lim, lim))
            p = subprocess.run(cmd, cwd=tmp, env=env, capture_output=True, text=True, preexec_fn=_limit,
                               timeout=int(os.environ.get("VERIF_KANI_TIMEOUT", "1500")))
            out = p.stdout + "\n" + p.stderr
        except subprocess.TimeoutExpired as e:
            out = (e.stdout or "") + "\nTIMEOUT"
        cmd_s = "(scratch copy of /repo + kani/verif_kani.rs) " + " ".join(cmd)
    finally:
        shutil.rmtree(tmp, ignore_errors=True)
    os.makedirs(os.path.join(ROOT, "build"), exist_ok=True)
    open(os.path.join(ROOT, "build", "kani_last.log"), "w").write(out)
    wall = time.time() - t0
    # per-harness verdicts
    verdict = {}
    cur = None
    checks = {}
    failed_desc = {}
    cover_ok = {}
    by_thread = {}
    tool_fail = set()
    for ln in out.split("\n"):
        m = re.match(r"(?:Thread (\d+): )?Checking harness (\S+?)\.\.\.", ln)
        if m:
            cur = m.group(2).split("::")[-1]
            if m.group(1):
                by_thread[m.group(1)] = cur
            continue
        m = re.match(r"Thread (\d+): ?$", ln)
        if m:
            cur = by_thread.get(m.group(1))
            continue
        m = re.search(r"\*\* (\d+) of (\d+) failed", ln)
        if m and cur:
            checks[cur] = (int(m.group(2)), int(m.group(2)) - int(m.group(1)))
        m = re.search(r"\*\* (\d+) of (\d+) cover properties satisfied", ln)
        if m and cur:
            cover_ok[cur] = int(m.group(1)) == int(m.group(2))
        m = re.match(r"Failed Checks: (.*)", ln)
        if m and cur:
            failed_desc.setdefault(cur, []).append(m.group(1))
        if cur and re.search(r"CBMC failed|out of memory|CBMC timed out|Killed", ln):
            tool_fail.add(cur)
        m = re.match(r"VERIFICATION:- (\w+)", ln)
        if m and cur:
            verdict[cur] = m.group(1) if cur not in tool_fail else "TOOL-FAILURE"
    for n in names:
        st = SETS[n]
        res = {"name": n, "status": "ok", "failures": [], "checks": 0, "checks_ok": 0, "wall_s": round(wall, 1),
               "cmd": cmd_s, "bounded": bool(st.get("bound")), "bound": st.get("bound"),
               "trusted": st.get("trusted", []), "assumptions": st.get("assumptions", []), "harnesses": {}}
        for h in st["harnesses"]:
            v = verdict.get(h)
            tot, ok = checks.get(h, (0, 0))
            res["checks"] += tot
            res["checks_ok"] += ok
            res["harnesses"][h] = v
            if v == "SUCCESSFUL":
                if cover_ok.get(h) is False:
                    res["status"] = "undecided"
                    res["reason"] = f"vacuity: cover in {h} not satisfied"
                continue
            if v == "FAILED":
                res["failures"].append({"obligation": f"kani::{h}::" + "; ".join(failed_desc.get(h, ["check failed"]))[:160],
                                        "kind": "kani-check", "item": h, "repo_file": "kani/verif_kani.rs", "repo_line": None,
                                        "message": "; ".join(failed_desc.get(h, [])), "rendered": "\n".join(l for l in out.split("\n") if h in l or "Failed Checks" in l)[:3000],
                                        "span_sha": "*", "concrete": None})
            else:
                res["status"] = "undecided"
                res["reason"] = f"harness {h}: no verdict (build error, ICE or timeout): " + out[-800:]
        if res["failures"] and res["status"] == "ok":
            res["status"] = "fail"
        results.append(res)
    return results


def replay(d):
    names = [n for n, st in SETS.items() if d["unit"] == n]
    rs = run_harness_sets(names)
    for r in rs:
        for f in r["failures"]:
            if f["obligation"] == d["obligation"]:
                print("REPRODUCED", f["obligation"])
                print(f["rendered"])
                return 1
    print("NOT REPRODUCED")
    return 0


if __name__ == "__main__":
    rs = run_harness_sets(sys.argv[1:])
    for r in rs:
        print(json.dumps({k: r[k] for k in ("name", "status", "checks", "checks_ok", "wall_s", "harnesses", "failures", "reason") if k in r}, indent=1)[:3000])
