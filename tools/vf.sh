#!/bin/bash
# usage: tools/vf.sh <unit> <function>   -- extract the unit and verify one function, compact error output
cd /verif
python3 tools/extract.py units/$1/unit.rs.in build/$1.rs | grep -v "^extracted" 
shift_unit=$1; shift
( time verus build/$shift_unit.rs --triggers-mode silent --verify-root --verify-function "$@" 2>&1 | grep -v "^ *|$" | grep -B1 -A12 "^error\|verification results" | head -${VF_LINES:-150} ) 2>&1
