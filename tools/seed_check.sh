#!/bin/bash
# usage: tools/seed_check.sh <property> <seed-dir-name>   -- run ./check <property> against a scratch worktree of /repo with
# seeded/<name>/patch.diff applied (VERIF_REPO), removed afterwards; /repo itself is not touched, evidence goes to a scratch
# directory, never to /verif/evidence
cd /verif
wt=$(mktemp -d /tmp/verif-seedwt-XXXXXX); rmdir "$wt"
git -C /repo worktree add -q "$wt" HEAD || exit 3
trap 'git -C /repo worktree remove --force "$wt" 2>/dev/null; git -C /repo worktree prune' EXIT
git -C "$wt" apply /verif/seeded/$2/patch.diff || { echo "patch does not apply to /repo HEAD"; exit 3; }
VERIF_REPO="$wt" VERIF_SCRATCH_EVIDENCE=/tmp/verif-seed-evidence ./check $1 | cut -c1-400; rc=${PIPESTATUS[0]}
echo "check exit=$rc"
