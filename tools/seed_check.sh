#!/bin/bash
# usage: tools/seed_check.sh <property> <seed-dir-name>   -- run ./check <property> against /repo with seeded/<name>/patch.diff
# applied, undo the change straight afterwards; evidence goes to a scratch directory, never to /verif/evidence
cd /verif
git -C /repo status --short | grep -q . && { echo "/repo working tree is not clean"; exit 3; }
git -C /repo apply /verif/seeded/$2/patch.diff || exit 3
VERIF_SCRATCH_EVIDENCE=/tmp/verif-seed-evidence ./check $1 | cut -c1-400; rc=${PIPESTATUS[0]}
git -C /repo checkout -- .
echo "check exit=$rc"
