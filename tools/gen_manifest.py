#!/usr/bin/env python3
"""Writes MANIFEST.json from props.json (claimed properties) and na.json (not_applicable reasons)."""
import json
import os

ROOT = os.path.dirname(os.path.dirname(os.path.abspath(__file__)))
props = json.load(open(os.path.join(ROOT, "props.json")))
na = json.load(open(os.path.join(ROOT, "na.json")))

checks = []
for pid in sorted(k for k in props if k.startswith("C")):
    c = props[pid]
    checks.append({
        "property_id": pid,
        "quick_cmd": f"./check {pid} --tier quick",
        "thorough_cmd": f"./check {pid} --tier thorough",
        "evidence_file": f"/verif/evidence/{pid}.json",
        "replay_cmd_template": "./check replay {path}",
        "engine": "verus-extract" + ("+kani" if c.get("kani") or c.get("kani_thorough") else ""),
        "level_claimed": {"category": c.get("level", "proof"), "text": c["level_text"], "design_ref": c.get("design_ref", "DESIGN.md §4 " + pid)},
        "level_note": c["level_note"],
        "technique": c.get("technique", "contract-based deductive verification (Verus) of functions extracted mechanically from /repo on every run"),
    })
claimed = {c["property_id"] for c in checks}
manifest = {
    "version": 1,
    "setup_cmd": "./check --selfcheck",
    "hooks": {
        "guard": "none in /repo: Verus runs on text extracted from /repo on every run; Kani harness modules are overlaid on a scratch copy under cfg(kani)",
        "enable": "no build flag; ./check reads /repo's working tree directly (tools/extract.py) and, for Kani, copies it to a scratch directory and adds `#[cfg(kani)] mod verif_kani;`",
        "baseline_off_cmd": "cd /repo && cargo test --workspace --no-fail-fast --offline",
        "source_commits": [],
        "add_only": True,
    },
    "engines": [
        {"name": "verus-extract", "path": "tools/extract.py, tools/run_unit.py, units/*/unit.rs.in, prelude/", "serves_properties": sorted(claimed),
         "kind_free_text": "mechanical extraction of real functions + spliced contracts, discharged by Verus 0.2026.09.13 (Z3)"},
        {"name": "kani", "path": "tools/kani_unit.py, kani/", "serves_properties": sorted(p for p in claimed if props[p].get("kani") or props[p].get("kani_thorough")),
         "kind_free_text": "Kani 0.68 function contracts / loop-free full-domain harnesses on the real crate (scratch copy); bounded stand-ins labelled bounded"},
    ],
    "checks": checks,
    "notes": "Exit 2 of a check means undecided (lost anchor, construct outside the extractor's subset, solver limit) and is never an alarm. See DESIGN.md.",
    "not_applicable": [{"property_id": k, "reason": v} for k, v in sorted(na.items()) if k not in claimed],
}
with open(os.path.join(ROOT, "MANIFEST.json"), "w") as f:
    json.dump(manifest, f, indent=1)
print("claimed:", sorted(claimed))
print("not_applicable:", [x["property_id"] for x in manifest["not_applicable"]])
