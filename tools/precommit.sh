#!/bin/bash
# run before every commit in /verif: all checks on the unchanged tree, then validate the evidence files
cd /verif
for f in replays/*.json; do [ -e "$f" ] && { echo "stale replay file $f (remove it if it stems from a run on a modified tree)"; }; done
git -C /repo status --short | grep -q . && { echo "/repo working tree is not clean"; exit 1; }
./check --all | grep -v "^OK\|^KNOWN-FINDING:" && { echo "a check is not OK"; exit 1; }
python3 - <<'PY'
import json,glob,sys
bad=0
m=json.load(open('/verif/MANIFEST.json'))
for c in m['checks']:
    d=json.load(open(c['evidence_file']))
    cov=d['coverage']
    if d['violations']!=0 or cov['obligations']<1 or cov['discharged']!=cov['obligations'] or not cov['checker_cmd'] or cov['undecided']:
        print("bad evidence", c['property_id']); bad=1
sys.exit(bad)
PY
