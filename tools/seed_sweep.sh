#!/bin/bash
# usage: tools/seed_sweep.sh [outfile]   -- every seeded change against the check of its property (scratch worktrees of /repo,
# /repo itself untouched); one line per seed: <seed> <property> exit=<0|1|2|3> (3 = the patch no longer applies to /repo HEAD)
cd /verif
out=${1:-/verif/seeded/SWEEP.txt}
: > "$out.tmp"
for d in seeded/*/; do
  n=$(basename $d)
  [ -f $d/patch.diff ] || continue
  p=$(python3 -c "import json;print(json.load(open('$d/meta.json'))['property'])" 2>/dev/null) || continue
  r=$(tools/seed_check.sh $p $n 2>&1 | tail -1)
  echo "$n $p ${r#check }" >> "$out.tmp"
done
mv "$out.tmp" "$out"
