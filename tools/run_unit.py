#!/usr/bin/env python3
"""Runs one Verus unit: extract from /repo's current tree, scan the trusted base, verify,
name the failed obligations, run the vacuity canaries.  Used by ./check.

Result dict:
  status: "ok" | "fail" | "undecided"
  reason: text for undecided
  failures: [ {obligation, kind, item, repo_file, repo_line, gen_line, message, rendered, span_sha} ]
  functions: [ {name, file, repo_lines, sha256, rules, obligations, discharged, time_ms, rlimit} ]
  trusted: [ ... ]   assumptions: [ ... ]
"""
import hashlib
import json
import os
import re
import subprocess
import sys
import time

HERE = os.path.dirname(os.path.abspath(__file__))
ROOT = os.path.dirname(HERE)
sys.path.insert(0, HERE)
import extract  # noqa: E402
from rustlex import mask, split_top_level  # noqa: E402

BUILD = os.environ.get("VERIF_BUILD") or os.path.join(ROOT, "build")
VERUS = os.environ.get("VERUS", "verus")

TRUST_PAT = re.compile(r"\bassume\s*\(|\badmit\s*\(|external_body|assume_specification|#\[verifier::external|\bexternal_fn_specification|#\[verifier::external_type_specification|accept_recursive_types|#\[verifier::exec_allows_no_decreases_clause")


def sh(cmd, timeout=None, cwd=None):
    t0 = time.time()
    try:
        p = subprocess.run(cmd, capture_output=True, text=True, timeout=timeout, cwd=cwd)
        return p.returncode, p.stdout, p.stderr, time.time() - t0
    except subprocess.TimeoutExpired as e:
        return 124, e.stdout or "", (e.stderr or "") + "\nTIMEOUT", time.time() - t0


def load_trusted_list():
    p = os.path.join(ROOT, "prelude", "TRUSTED.json")
    with open(p) as f:
        return json.load(f)


def trusted_scan(gen_path, meta):
    """Every assume/admit/external_body/assume_specification in the generated file must lie in a
    non-extracted region (prelude/stub/template text) and match an entry of prelude/TRUSTED.json
    (name).  Extracted items may contain none.  Returns (ok, found_list, problem)."""
    with open(gen_path) as f:
        lines = f.read().split("\n")
    m_lines = mask("\n".join(lines)).split("\n")
    allowed = load_trusted_list()
    found, problems = [], []
    item_ranges = [(it["gen_lines"][0], it["gen_lines"][1], it["name"]) for it in meta["items"]]
    for i, ml in enumerate(m_lines, 1):
        if not TRUST_PAT.search(ml):
            continue
        origin = meta["linemap"][i - 1] if i - 1 < len(meta["linemap"]) else None
        if origin is not None:
            problems.append(f"trusted construct inside extracted repository text at gen line {i}: {lines[i-1].strip()}")
            continue
        # name of the trusted thing: the next `fn`/`struct`/`type` declared at or after the marker,
        # qualified by the enclosing top-level `impl` type if any
        def enclosing_impl(idx):
            for j in range(idx, -1, -1):
                if re.match(r"impl\b", lines[j]):
                    mm = re.match(r"impl(?:<[^>]*>)?\s+(?:[\w:<>, ']+\s+for\s+)?(\w+)", lines[j])
                    return mm.group(1) if mm else None
                if lines[j].startswith("}"):
                    return None
            return None
        if re.search(r"\bassume\s*\(|\badmit\s*\(", ml):
            fnn = None
            for j in range(i - 1, -1, -1):
                mm = re.search(r"\bfn\s+(\w+)", m_lines[j])
                if mm:
                    fnn = mm.group(1)
                    break
            name = f"admit-in {fnn}"
        else:
            ctx = " ".join(lines[i - 1:i + 4])
            nm = re.search(r"assume_specification(?:<[^\[]*>)?\s*\[\s*([^\]]+?)\s*\]", ctx)
            if nm:
                name = "assume_specification " + "".join(nm.group(1).split())
            else:
                nm = re.search(r"\b(fn|struct|type|trait)\s+(\w+)", ctx)
                if nm and nm.group(1) == "fn":
                    enc = enclosing_impl(i - 1)
                    name = "external_body " + (enc + "::" if enc else "") + nm.group(2)
                else:
                    name = ("external_body " + nm.group(2)) if nm else ("unnamed@" + lines[i - 1].strip())
        if name not in allowed:
            problems.append(f"trusted item not on prelude/TRUSTED.json: {name} (gen line {i})")
        else:
            found.append(name + " — " + allowed[name])
    return (not problems), sorted(set(found)), problems


KIND_RULES = [
    (r"postcondition not satisfied", "postcondition"),
    (r"unable to prove post-condition of closure", "closure-postcondition"),
    (r"unable to prove pre-condition|closure.*precondition", "precondition"),
    (r"precondition not satisfied", "precondition"),
    (r"precondition not met: index in bounds|index out of bounds|possible index", "index-bounds"),
    (r"invariant not satisfied at end of loop body", "invariant-preserved"),
    (r"invariant not satisfied before loop", "invariant-entry"),
    (r"loop invariant not satisfied", "invariant-preserved"),
    (r"loop ensures not satisfied|loop ensures", "loop-ensures"),
    (r"decreases not satisfied|could not prove termination", "decreases"),
    (r"possible arithmetic underflow/overflow|possible division by zero|possible bit shift", "overflow"),
    (r"assertion failed", "assert"),
    (r"unreachable|panic", "unreachable"),
    (r"recommendation not met", "recommends"),
]
UNDECIDED_PAT = re.compile(r"rlimit|resource limit|timed out|while loop: .* not supported|not yet support|does not support|internal error|panicked", re.I)


def classify(msg):
    for rx, k in KIND_RULES:
        if re.search(rx, msg):
            return k
    return None


def norm_clause(s):
    s = " ".join(s.split())
    return s[:70]


def item_at(meta, gen_line):
    for it in meta["items"]:
        if it["gen_lines"][0] <= gen_line <= it["gen_lines"][1]:
            return it
    return None


def count_obligations(gen_lines, linemap, it, contracted_names):
    """Syntactic obligation count for one extracted fn (DESIGN 2.7)."""
    a, b = it["gen_lines"]
    seg = gen_lines[a - 1:b]
    segmap = linemap[a - 1:b]
    spliced = "\n".join(l for l, o in zip(seg, segmap) if o is None)
    code = "\n".join(l for l, o in zip(seg, segmap) if o is not None)
    n = {"ensures": 0, "invariant": 0, "decreases": 0, "safety": 0, "call-pre": 0}
    ms = mask(spliced)
    for kw in ("ensures", "invariant"):
        for m in re.finditer(r"\b" + kw + r"\b", ms):
            rest = ms[m.end():]
            stop = re.search(r"\b(requires|ensures|invariant|decreases|proof|let ghost)\b|\{\s*$", rest)
            clause_txt = rest[:stop.start()] if stop else rest
            parts = [p for p in split_top_level(clause_txt, clause_txt) if p.strip()]
            n[kw] += max(1, len(parts))
    n["decreases"] = len(re.findall(r"\bdecreases\b", ms))
    mc = mask(code)
    body_start = mc.find("{")
    body = mc[body_start:] if body_start >= 0 else ""
    n["safety"] += len(re.findall(r"[A-Za-z0-9_\)\]]\s*\[", body))  # indexing
    n["safety"] += len(re.findall(r"(?<![-=<>!&|+*/%])\s(\+|-|\*|/|%)=?\s(?![>=])", body))  # arithmetic
    n["safety"] += len(re.findall(r"\b(?:debug_)?assert!|\bunreachable!|\bpanic!|\.unwrap\(\)|\.expect\(", body))
    for cn in contracted_names:
        short = cn.split("::")[-1]
        n["call-pre"] += len(re.findall(r"\b" + re.escape(short) + r"\s*\(", body))
    total = sum(n.values())
    return total, n


def run_verus(gen_path, extra=None, timeout=600, function=None, multiple_errors="6"):
    cmd = [VERUS, gen_path, "--output-json", "--time-expanded", "--multiple-errors", multiple_errors]
    if function:
        cmd += ["--verify-root", "--verify-function", function]
    cmd += extra or []
    cmd += ["--", "--error-format=json"]
    rc, out, err, wall = sh(cmd, timeout=timeout, cwd=BUILD)
    res = None
    try:
        res = json.loads(out[out.index("{"):]) if "{" in out else None
    except Exception:
        res = None
    diags = []
    for ln in err.split("\n"):
        ln = ln.strip()
        if ln.startswith("{") and '"$message_type"' in ln:
            try:
                diags.append(json.loads(ln))
            except Exception:
                pass
    return rc, res, diags, err, wall, " ".join(cmd)


from rustlex import match_close as match_close_


def make_canary(gen_path, meta, out_path, shard=0, nshards=1):
    """Copy of the generated file in which every contracted fn with a `requires` gets
    `proof { assert(false); }` as the first statement of its body.  Each must FAIL there."""
    with open(gen_path) as f:
        lines = f.read().split("\n")
    targets = []
    inserts = {}
    text = "\n".join(lines)
    m_text = mask(text)
    offs = [0]
    for ln in lines:
        offs.append(offs[-1] + len(ln) + 1)
    for it in meta["items"]:
        if it["kind"] != "fn" or not it.get("has_requires") or not it.get("has_body"):
            continue
        a, b = it["gen_lines"]
        seg_start, seg_end = offs[a - 1], offs[b]
        fn_kw = re.search(r"\bfn\b", m_text[seg_start:seg_end])
        from rustlex import next_body_brace
        ob = next_body_brace(m_text, seg_start + fn_kw.start())
        # the body brace is the first `{` at depth 0 after the contract clauses; contract clauses may
        # contain braces (match arms), so take the brace that closes at the end of the item instead
        close = m_text.rfind("}", seg_start, seg_end)
        from rustlex import match_open
        ob = match_open(m_text, close)
        inserts[ob] = it["name"]
    out, last = [], 0
    canary_lines = {}
    # the whole body is replaced: only the precondition is in scope of the assert(false) (cheap query)
    for pos in sorted(inserts):
        close = match_close_(m_text, pos)
        out.append(text[last:pos + 1])
        out.append(" proof { assert(false); } /*CANARY:" + inserts[pos] + "*/ vstd::pervasive::unreached() }")
        last = close + 1
    out.append(text[last:])
    new = "".join(out)
    with open(out_path, "w") as f:
        f.write(new)
    for i, ln in enumerate(new.split("\n"), 1):
        for m in re.finditer(r"/\*CANARY:([^*]+)\*/", ln):
            canary_lines[i] = m.group(1)
    return canary_lines


def run_unit(unit, tier="quick", seeds=None):
    t0 = time.time()
    os.makedirs(BUILD, exist_ok=True)
    tpl = os.path.join(ROOT, "units", unit, "unit.rs.in")
    gen = os.path.join(BUILD, unit + ".rs")
    res = {"unit": unit, "status": "ok", "failures": [], "functions": [], "trusted": [], "assumptions": [],
           "rewrites": [], "reason": "", "verus_cmd": "", "wall_s": 0.0, "canaries": 0, "sources": {}}
    try:
        extract.Source._cache.clear()
        meta = extract.write_unit(tpl, gen)
    except (extract.ExtractError, extract.LexError) as e:
        res.update(status="undecided", reason=f"extraction: {e}")
        return res
    res["sources"] = meta["sources"]
    # `stub=UNIT` blocks: the statement range must be exactly the range that unit UNIT verifies under the same name
    # (same source text, by hash); otherwise the assumed contract is not about verified code: undecided
    for it in meta.get("items", []):
        if not it.get("stub"):
            continue
        origin = re.search(r"verified in unit (\w+)", " ".join(it.get("rules", [])))
        origin = origin.group(1) if origin else None
        try:
            extract.Source._cache.clear()
            ometa = extract.write_unit(os.path.join(ROOT, "units", origin, "unit.rs.in"), os.path.join(BUILD, f"{origin}__stubref.rs"))
        except Exception as e:
            res.update(status="undecided", reason=f"stub block {it['name']}: unit {origin} cannot be extracted: {e}")
            return res
        same = [o for o in ometa.get("items", []) if o.get("block") and not o.get("stub") and o["name"] == it["name"] and o["file"] == it["file"]]
        if not same or same[0]["sha256"] != it["sha256"]:
            res.update(status="undecided", reason=f"stub block {it['name']}: unit {origin} does not verify a block of that name over the same statement range")
            return res
    extract.Source._cache.clear()
    ok, found, problems = trusted_scan(gen, meta)
    res["trusted"] = found
    if not ok:
        res.update(status="undecided", reason="trusted-base scan: " + "; ".join(problems))
        return res
    ujson = os.path.join(ROOT, "units", unit, "unit.json")
    ucfg = json.load(open(ujson)) if os.path.exists(ujson) else {}
    res["assumptions"] = ucfg.get("assumptions", [])
    res["not_under_contract"] = ucfg.get("not_under_contract", [])

    # the vacuity canary file is verified concurrently with the unit itself
    import concurrent.futures as _cf
    # one canary file (every contracted fn with a `requires` gets the body `assert(false); unreached()`), checked
    # function by function in separate verus processes (a failing query slows down every later query of the
    # same process, so they are run in parallel instead)
    cl, can_futs = {}, []
    _ex = _cf.ThreadPoolExecutor(max_workers=int(os.environ.get("VERIF_JOBS", "12")))
    try:
        can = os.path.join(BUILD, f"{unit}__canary.rs")
        # the contract-strength self-tests re-run the unit on mutated copies: vacuity is decided by the main run only
        cl0 = None if os.environ.get("VERIF_NO_CANARY") else make_canary(gen, meta, can)
        if cl0:
            cl[0] = cl0
            for ln_, nm_ in cl0.items():
                short = nm_.split("#")[-1]
                mm_ = re.fullmatch(r"<(\w+) as (\w+)>::(\w+)", short)
                if mm_:
                    short = mm_.group(3)
                if short.startswith("trait "):
                    continue
                pat = "*" + short if "::" in short else "*::" + short
                can_futs.append((nm_, ln_, _ex.submit(run_verus, can, (ucfg.get("verus_args") or []) + ["--num-threads", "1"], 300, pat, "0")))
    except Exception as e:  # canary generation must never turn into an alarm
        cl, can_futs = {}, []
        res["canary_error"] = str(e)
    rc, out, diags, err, wall, cmd = run_verus(gen, extra=ucfg.get("verus_args"))
    res["verus_cmd"] = cmd
    with open(gen) as f:
        gen_lines = f.read().split("\n")
    if out is None or "verification-results" not in out:
        res.update(status="undecided", reason="verus produced no result: " + err[-1500:])
        return res
    vr = out["verification-results"]
    errs = [d for d in diags if d.get("level") == "error" and not d["message"].startswith("aborting due to")]
    # compile/type errors, unsupported constructs, rlimit => undecided
    errs = [d for d in diags if d.get("level") == "error" and not d["message"].startswith("aborting due to")]
    # a query that ran out of its resource limit is retried alone with a 10x limit (a failing proof often exhausts
    # the default limit before Z3 can name the failed assertion): the retry either discharges the function, names
    # the failed obligation, or stays out of resources (then: undecided)
    rl = [d for d in errs if re.search(r"Resource limit \(rlimit\) exceeded", d["message"])]
    if rl and not vr.get("encountered-vir-error") and not [d for d in errs if d.get("code")]:
        retried = {}
        for d in rl:
            prim = [s_ for s_ in d["spans"] if s_.get("is_primary")]
            fnm = None
            if prim and os.path.basename(prim[0]["file_name"]) == os.path.basename(gen):
                # the span of a resource-limit report starts at the function header (or at a loop inside it)
                it_ = item_at(meta, prim[0]["line_start"])
                if it_ is not None and it_["kind"] == "fn":
                    fnm = it_["name"].split("#")[-1].split("::")[-1].rstrip(">")
                else:
                    for ln_ in range(prim[0]["line_start"], max(0, prim[0]["line_start"] - 400), -1):
                        hm_ = re.match(r"\s*(?:pub\s+)?(?:broadcast\s+)?(?:proof\s+|spec\s+|exec\s+)?fn\s+(\w+)", gen_lines[ln_ - 1])
                        if hm_:
                            fnm = hm_.group(1)
                            break
            if fnm is None:
                retried = None
                break
            retried[fnm] = d
        if retried:
            futs_ = {k: _ex.submit(run_verus, gen, (ucfg.get("verus_args") or []) + ["--rlimit", "100", "--num-threads", "1"], 900,
                                   "*" + k, "6") for k in retried}
            res["rlimit_retries"] = []
            keep = [d for d in errs if d not in rl]
            for k, fu in futs_.items():
                rc2, out2, diags2, err2, wall2, cmd2 = fu.result()
                errs2 = [d for d in diags2 if d.get("level") == "error" and not d["message"].startswith("aborting due to")]
                vr2 = (out2 or {}).get("verification-results", {})
                okv = bool(vr2) and not vr2.get("encountered-error") and not vr2.get("encountered-vir-error") and vr2.get("errors") == 0 and vr2.get("verified", 0) >= 1
                res["rlimit_retries"].append({"function": k, "wall_s": round(wall2, 1), "verified": bool(okv), "errors": len(errs2)})
                if okv:
                    continue
                conc2 = [d for d in errs2 if not re.search(r"Resource limit \(rlimit\) exceeded", d["message"])]
                # a named failed obligation decides the function even if other queries of it stayed out of resources
                keep += conc2 if conc2 else (errs2 if errs2 else [retried[k]])
            errs = keep
            if not errs:
                vr = dict(vr, success=True)
    hard = [d for d in errs if d.get("code") or classify(d["message"]) is None or UNDECIDED_PAT.search(d["message"])]
    if vr.get("encountered-vir-error") or hard or (not vr.get("success") and not errs):
        msg = "; ".join(d["message"] for d in hard[:3]) or "verus error without diagnostics"
        res.update(status="undecided", reason="generated file rejected or resource limit: " + msg,
                   raw="\n".join(d.get("rendered", "") for d in hard[:5]))
        return res
    # per-function timing
    fb = {}
    try:
        for mod in out["times-ms"]["smt"]["smt-run-module-times"]:
            for f in mod.get("function-breakdown", []):
                fb[f["function"]] = f
    except Exception:
        pass
    contracted = [it["name"] for it in meta["items"] if it["kind"] == "fn" and it.get("has_requires")]
    # failures
    failing_items = {}
    for d in errs:
        prim = [s for s in d["spans"] if s.get("is_primary")]
        if not prim:
            continue
        sp = prim[0]
        macro_name = None
        # a failure inside a macro (assert!/debug_assert!/unreachable!) is reported at the macro's definition:
        # follow the expansion chain back to the call site in the generated file
        hops = 0
        while os.path.basename(sp["file_name"]) != os.path.basename(gen) and sp.get("expansion") and hops < 8:
            macro_name = macro_name or sp["expansion"].get("macro_decl_name")
            sp = sp["expansion"]["span"]
            hops += 1
        if os.path.basename(sp["file_name"]) != os.path.basename(gen):
            gl = None
        else:
            gl = sp["line_start"]
        kind = classify(d["message"])
        if macro_name and kind == "precondition":
            kind = "assert"
        it = item_at(meta, gl) if gl else None
        origin = meta["linemap"][gl - 1] if gl and gl - 1 < len(meta["linemap"]) else None
        detail = ""
        if kind == "postcondition":
            lab = [s for s in d["spans"] if (s.get("label") or "").startswith("failed this postcondition")]
            if lab:
                detail = norm_clause(gen_lines[lab[0]["line_start"] - 1])
            ex_ = [s for s in d["spans"] if (s.get("label") or "").startswith("at this exit")]
            if ex_:
                detail += " @exit " + norm_clause(gen_lines[ex_[0]["line_start"] - 1])
                eo = meta["linemap"][ex_[0]["line_start"] - 1]
                if eo:
                    origin = eo
        elif kind == "precondition":
            lab = [s for s in d["spans"] if (s.get("label") or "").startswith("failed precondition")]
            if lab and os.path.basename(lab[0]["file_name"]) == os.path.basename(gen):
                callee = item_at(meta, lab[0]["line_start"])
                detail = "of " + (callee["name"] if callee else "helper") + ": " + norm_clause(gen_lines[lab[0]["line_start"] - 1])
            else:
                detail = "of std/vstd operation"
        elif kind in ("invariant-preserved", "invariant-entry", "assert", "loop-ensures"):
            lab = [s for s in d["spans"] if (s.get("label") or "").startswith("failed this invariant")]
            if lab:
                detail = norm_clause(gen_lines[lab[0]["line_start"] - 1]) + " @continue/break"
            else:
                detail = norm_clause(gen_lines[gl - 1]) if gl else ""
        name = f"{unit}::{it['name'] if it else 'template'}::{kind}" + (f"[{detail}]" if detail else "")
        span_sha = it["sha256"][:16] if it else ""
        f_ = {"obligation": name, "kind": kind, "item": it["name"] if it else None,
              "repo_file": origin[0] if origin else (it["file"] if it else None),
              "repo_line": origin[1] if origin else (it["repo_lines"][0] if it else None),
              "gen_line": gl, "message": d["message"], "rendered": d.get("rendered", ""), "span_sha": span_sha}
        if f_ not in res["failures"]:
            res["failures"].append(f_)
        if it:
            failing_items.setdefault(it["name"], 0)
            failing_items[it["name"]] += 1
    if res["failures"]:
        res["status"] = "fail"
    elif not vr.get("success"):
        res.update(status="undecided", reason="verus reports failure but no attributable error")
        return res
    # functions + obligations
    tot_ob = tot_dis = 0
    for it in meta["items"]:
        if it["kind"] != "fn":
            continue
        nob, brk = count_obligations(gen_lines, meta["linemap"], it, contracted)
        nf = failing_items.get(it["name"], 0)
        dis = max(0, nob - nf)
        tm = None
        short = it["name"].split("::")[-1].replace(">", "")
        for k, v in fb.items():
            if k.endswith("::" + short):
                tm = v
        res["functions"].append({"name": it["name"], "file": it["file"], "repo_lines": it["repo_lines"],
                                 "sha256": it["sha256"], "rules": it["rules"], "obligations": nob,
                                 "discharged": dis, "breakdown": brk, "contract": it.get("contract", False),
                                 "smt_time_ms": tm.get("time") if tm else None, "rlimit": tm.get("rlimit") if tm else None})
        if it.get("has_body"):
            tot_ob += nob
            tot_dis += dis
        for r in it["rules"]:
            res["rewrites"].append(f"{r} in {it['name']} ({it['file']}:{it['repo_lines'][0]}-{it['repo_lines'][1]})")
    res["obligations"], res["discharged"] = tot_ob, tot_dis
    res["verus_total_ms"] = out["times-ms"].get("total")
    res["smt_ms"] = out["times-ms"].get("smt", {}).get("smt-run")
    missing = [it["name"] for it in meta["items"] if it["kind"] == "fn" and it.get("has_body") and not any(
        k.endswith("::" + it["name"].split("::")[-1].replace(">", "")) for k in out.get("func-details", {}))]
    if missing:
        res.update(status="undecided", reason=f"items not seen by verus: {missing}")
        return res
    if tot_ob == 0:
        res.update(status="undecided", reason="vacuity: zero obligations generated")
        return res
    # ---- vacuity canaries: only meaningful when the unit itself verifies
    if res["status"] == "ok":
        if cl:
            hit, expected = set(), set()
            for nm_, ln_, fut in can_futs:
                rc2, out2, diags2, err2, wall2, cmd2 = fut.result()
                expected.add(nm_)
                for d in diags2:
                    if d.get("level") != "error":
                        continue
                    for s_ in d["spans"]:
                        if s_.get("is_primary") and s_["line_start"] == ln_ and "assertion failed" in d["message"]:
                            hit.add(nm_)
            vac = sorted(expected - hit)
            res["canaries"] = len(hit)
            if vac:
                res.update(status="undecided", reason=f"vacuity: precondition of {vac} is contradictory or the canary could not be checked (assert(false) not refuted)")
                return res
    # ---- thorough: re-verify under other seeds (instability is reported, never a violation)
    if tier == "thorough" and res["status"] == "ok":
        res["seed_runs"] = []
        for sd in (seeds or [1, 7, 42]):
            rc3, out3, d3, e3, w3, c3 = run_verus(gen, extra=(ucfg.get("verus_args") or []) + ["--smt-option", f"smt.random_seed={sd}"])
            ok3 = bool(out3 and out3.get("verification-results", {}).get("success"))
            res["seed_runs"].append({"seed": sd, "success": ok3, "wall_s": round(w3, 2)})
    res["wall_s"] = round(time.time() - t0, 2)
    return res


if __name__ == "__main__":
    r = run_unit(sys.argv[1], sys.argv[2] if len(sys.argv) > 2 else "quick")
    r2 = {k: r[k] for k in ("unit", "status", "reason", "failures", "obligations", "discharged", "canaries", "trusted") if k in r}
    for f in r2["failures"]:
        f.pop("rendered", None)
    print(json.dumps(r2, indent=1))
    sys.exit({"ok": 0, "fail": 1, "undecided": 2}[r["status"]])
