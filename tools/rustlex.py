"""Minimal Rust lexical helpers: masking of comments/strings, brace matching, item location.

Nothing here understands Rust's grammar beyond what is needed to copy items out of
rustfmt-formatted source text verbatim.
"""
import re


class LexError(Exception):
    pass


def mask(src: str, keep_strings: bool = False) -> str:
    """Return a string of the same length in which comments, string/char literal
    contents are replaced by spaces (newlines are kept)."""
    out = list(src)
    i, n = 0, len(src)

    def blank(a, b):
        for k in range(a, b):
            if out[k] != "\n":
                out[k] = " "

    while i < n:
        c = src[i]
        if c == "/" and i + 1 < n and src[i + 1] == "/":
            j = src.find("\n", i)
            if j < 0:
                j = n
            blank(i, j)
            i = j
        elif c == "/" and i + 1 < n and src[i + 1] == "*":
            depth, j = 1, i + 2
            while j < n and depth:
                if src.startswith("/*", j):
                    depth += 1
                    j += 2
                elif src.startswith("*/", j):
                    depth -= 1
                    j += 2
                else:
                    j += 1
            blank(i, j)
            i = j
        elif c == '"' or (c in "br" and re.match(r'b?r#*"|b"', src[i:i + 8]) and (i == 0 or not (src[i - 1].isalnum() or src[i - 1] == "_"))):
            m = re.match(r'(b?)(r(#*))?"', src[i:i + 40])
            if not m:
                i += 1
                continue
            start = i + m.end()
            if m.group(2):
                term = '"' + m.group(3)
                j = src.find(term, start)
                if j < 0:
                    raise LexError("unterminated raw string")
                if not keep_strings:
                    blank(start, j)
                i = j + len(term)
            else:
                j = start
                while j < n and src[j] != '"':
                    j += 2 if src[j] == "\\" else 1
                if not keep_strings:
                    blank(start, j)
                i = j + 1
        elif c == "'":
            # char literal or lifetime
            if i + 1 < n and src[i + 1] == "\\":
                j = src.find("'", i + 2)
                if src[i + 2] == "'":
                    j = src.find("'", i + 3)
                blank(i + 1, j)
                i = j + 1
            elif i + 2 < n and src[i + 2] == "'":
                blank(i + 1, i + 2)
                i += 3
            else:
                i += 1
        else:
            i += 1
    return "".join(out)


OPEN = {"{": "}", "(": ")", "[": "]"}
CLOSE = {v: k for k, v in OPEN.items()}


def match_close(masked: str, open_idx: int) -> int:
    """Index of the bracket closing the one at open_idx."""
    o = masked[open_idx]
    c = OPEN[o]
    depth = 0
    for k in range(open_idx, len(masked)):
        ch = masked[k]
        if ch == o:
            depth += 1
        elif ch == c:
            depth -= 1
            if depth == 0:
                return k
    raise LexError(f"unbalanced {o} at {open_idx}")


def match_open(masked: str, close_idx: int) -> int:
    c = masked[close_idx]
    o = CLOSE[c]
    depth = 0
    for k in range(close_idx, -1, -1):
        ch = masked[k]
        if ch == c:
            depth += 1
        elif ch == o:
            depth -= 1
            if depth == 0:
                return k
    raise LexError(f"unbalanced {c} at {close_idx}")


def brace_depths(masked: str):
    d, out = 0, []
    for ch in masked:
        if ch == "}":
            d -= 1
        out.append(d)
        if ch == "{":
            d += 1
    return out


def next_body_brace(masked: str, start: int, stop_chars: str = ";") -> int:
    """First `{` after start at paren/bracket depth 0 (relative); returns -1 if a stop char
    at depth 0 comes first."""
    depth = 0
    angle = 0
    k = start
    n = len(masked)
    while k < n:
        ch = masked[k]
        if ch in "([":
            depth += 1
        elif ch in ")]":
            depth -= 1
        elif depth == 0 and ch == "{":
            return k
        elif depth == 0 and ch in stop_chars:
            return -1
        k += 1
    return -1


def line_start(text: str, idx: int) -> int:
    return text.rfind("\n", 0, idx) + 1


def line_of(text: str, idx: int) -> int:
    """1-based line number of the character at idx."""
    return text.count("\n", 0, idx) + 1


def split_top_level(masked: str, text: str, sep: str = ","):
    """Split text at separators that are at bracket depth 0 (also tracks <>)."""
    parts, depth, last = [], 0, 0
    for k, ch in enumerate(masked):
        if ch in "([{<":
            depth += 1
        elif ch in ")]}":
            depth -= 1
        elif ch == ">" and (k == 0 or masked[k - 1] not in "-="):
            depth -= 1
        elif ch == sep and depth == 0:
            parts.append(text[last:k])
            last = k + 1
    parts.append(text[last:])
    return parts
