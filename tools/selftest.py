#!/usr/bin/env python3
"""Contract-strength self-test: applies each mutation of units/<unit>/selftest.json to a scratch copy of
/repo's src tree (outside /repo and /verif, removed afterwards) and checks that the unit's verdict is the
expected one ("fail" for property-breaking variants, "ok" for harmless edits).  Exit 0 iff all as expected."""
import json, os, shutil, subprocess, sys, tempfile
HERE = os.path.dirname(os.path.abspath(__file__))
ROOT = os.path.dirname(HERE)

def one(unit, mut):
    """returns (bad, lines)"""
    lines = []
    tmp = tempfile.mkdtemp(prefix="verif-selftest-")
    try:
        for d in ("src", "cpp/src"):
            shutil.copytree(os.path.join("/repo", d), os.path.join(tmp, d))
        p = os.path.join(tmp, mut["file"])
        s = open(p).read()
        if s.count(mut["find"]) != 1:
            return 1, [f"[{unit}] {mut['name']}: anchor found {s.count(mut['find'])} times -> SKIP(lost anchor)"]
        open(p, "w").write(s.replace(mut["find"], mut["replace"]))
        # each variant gets its own build directory (variants run concurrently) and skips the vacuity canaries
        bdir = os.path.join(tmp, "build")
        os.makedirs(bdir, exist_ok=True)
        env = dict(os.environ, VERIF_REPO=tmp, VERIF_NO_CANARY="1", VERIF_BUILD=bdir)
        r = subprocess.run([sys.executable, os.path.join(HERE, "run_unit.py"), unit], capture_output=True, text=True, env=env)
        got = {0: "ok", 1: "fail", 2: "undecided"}.get(r.returncode, "?")
        names = []
        try:
            names = [f["obligation"] for f in json.loads(r.stdout)["failures"]]
        except Exception:
            pass
        ok = got == mut["expect"]
        lines.append(f"[{unit}] {mut['name']}: expected {mut['expect']} got {got} {'OK' if ok else 'MISMATCH'} {names[:2]}")
        if not ok and got == "undecided":
            try:
                lines.append("   reason: " + json.loads(r.stdout)["reason"][:600])
            except Exception:
                lines.append(r.stdout[-400:])
        return (0 if ok else 1), lines
    finally:
        shutil.rmtree(tmp, ignore_errors=True)


def main(unit, only=None):
    import concurrent.futures as cf
    st = json.load(open(os.path.join(ROOT, "units", unit, "selftest.json")))
    muts = [m for m in st if not only or m["name"] == only]
    bad = 0
    with cf.ThreadPoolExecutor(max_workers=int(os.environ.get("VERIF_SELFTEST_JOBS", "4"))) as ex:
        for b, lines in ex.map(lambda m: one(unit, m), muts):
            bad += b
            for ln in lines:
                print(ln)
    return 1 if bad else 0


if __name__ == "__main__":
    sys.exit(main(sys.argv[1], sys.argv[2] if len(sys.argv) > 2 else None))
