#!/usr/bin/env python3
"""Contract-strength self-test: applies each mutation of units/<unit>/selftest.json to a scratch copy of
/repo's src tree (outside /repo and /verif, removed afterwards) and checks that the unit's verdict is the
expected one ("fail" for property-breaking variants, "ok" for harmless edits).  Exit 0 iff all as expected."""
import json, os, shutil, subprocess, sys, tempfile
HERE = os.path.dirname(os.path.abspath(__file__))
ROOT = os.path.dirname(HERE)

def main(unit, only=None):
    st = json.load(open(os.path.join(ROOT, "units", unit, "selftest.json")))
    bad = 0
    for mut in st:
        if only and mut["name"] != only:
            continue
        tmp = tempfile.mkdtemp(prefix="verif-selftest-")
        try:
            for d in ("src", "cpp/src"):
                shutil.copytree(os.path.join("/repo", d), os.path.join(tmp, d))
            p = os.path.join(tmp, mut["file"])
            s = open(p).read()
            if s.count(mut["find"]) != 1:
                print(f"[{unit}] {mut['name']}: anchor found {s.count(mut['find'])} times -> SKIP(lost anchor)")
                bad += 1
                continue
            open(p, "w").write(s.replace(mut["find"], mut["replace"]))
            env = dict(os.environ, VERIF_REPO=tmp)
            r = subprocess.run([sys.executable, os.path.join(HERE, "run_unit.py"), unit], capture_output=True, text=True, env=env)
            got = {0: "ok", 1: "fail", 2: "undecided"}.get(r.returncode, "?")
            names = []
            try:
                names = [f["obligation"] for f in json.loads(r.stdout)["failures"]]
            except Exception:
                pass
            ok = got == mut["expect"]
            print(f"[{unit}] {mut['name']}: expected {mut['expect']} got {got} {'OK' if ok else 'MISMATCH'} {names[:2]}")
            if not ok:
                bad += 1
                if got == "undecided":
                    try:
                        print("   reason:", json.loads(r.stdout)["reason"][:600])
                    except Exception:
                        print(r.stdout[-400:])
        finally:
            shutil.rmtree(tmp, ignore_errors=True)
    return 1 if bad else 0

if __name__ == "__main__":
    sys.exit(main(sys.argv[1], sys.argv[2] if len(sys.argv) > 2 else None))
