#!/usr/bin/env python3
"""Mechanical extractor: copies items out of /repo's *current working tree*, applies the
enumerated rewrite rules (DESIGN.md 2.3), splices contract clauses from a unit template
and writes one Verus file plus a line map.

Template directives (units/<unit>/unit.rs.in):

  //@fn <repo-file> <selector> [ret=NAME] [rules=R1,R2,..] [rename=NAME] [vis=keep]
  //@spec                      contract clauses spliced between signature and body
  //@loop <n>                  invariant/decreases clauses for the n-th loop (1-based, textual order)
  //@hint before|after /regex/ [k]   proof text inserted before/after the k-th match (default 1)
  //@end

  //@item <repo-file> struct|enum|const|impl|trait|type <selector> [rules=..] [derive=Copy,Clone]
  //@implhdr <repo-file> <selector>     emits the `impl<..> .. {` header line only
  //@block <repo-file> <fn-selector> /start-regex/ /end-regex/ ... //@end  (see do_block)

Selectors for fn: `name` (free fn), `Type::name` (inherent impl), `<Type as Trait>::name`,
`trait Trait::name`.

Exit status of the command line tool: 0 ok, 2 extraction impossible (lost anchor,
construct outside the subset).  Never 1.
"""
import hashlib
import json
import os
import re
import sys

sys.path.insert(0, os.path.dirname(os.path.abspath(__file__)))
from rustlex import (LexError, brace_depths, line_of, line_start, mask, match_close,
                     next_body_brace, split_top_level)

REPO = os.environ.get("VERIF_REPO", "/repo")
# repository file of the item whose rewrite rules are being applied (for rules that look other items up in that file)
import threading as _threading
class _Cur(_threading.local):
    def __init__(self):
        self.v = [None]
    def __getitem__(self, i):
        return self.v[i]
    def __setitem__(self, i, x):
        self.v[i] = x
CURRENT_FILE = _Cur()


class ExtractError(Exception):
    """Raised when the unit cannot be produced from the current tree (=> undecided, exit 2)."""


# ----------------------------------------------------------------------------- sources

class Source:
    _cache = {}

    def __init__(self, rel):
        self.rel = rel
        path = os.path.join(REPO, rel)
        try:
            with open(path, encoding="utf-8") as f:
                self.text = f.read()
        except OSError as e:
            raise ExtractError(f"cannot read {path}: {e}")
        try:
            self.masked = mask(self.text)
        except LexError as e:
            raise ExtractError(f"{rel}: {e}")
        self.depth = brace_depths(self.masked)
        self.sha = hashlib.sha256(self.text.encode()).hexdigest()

    @classmethod
    def get(cls, rel):
        if rel not in cls._cache:
            cls._cache[rel] = Source(rel)
        return cls._cache[rel]

    # -- blocks -------------------------------------------------------------------
    def blocks(self, kw):
        """Top-level `impl`/`trait` blocks: (header_text, start, open_brace, close_brace)."""
        res = []
        for m in re.finditer(r"(?m)^(?:pub(?:\([a-z]+\))?\s+)?(?:unsafe\s+)?" + kw + r"\b", self.masked):
            if self.depth[m.start()] != 0:
                continue
            ob = next_body_brace(self.masked, m.end())
            if ob < 0:
                continue
            cb = match_close(self.masked, ob)
            hdr = " ".join(self.text[m.start():ob].split())
            res.append((hdr, m.start(), ob, cb))
        return res

    def find_impl(self, type_name, trait_name=None):
        out = []
        for hdr, s, ob, cb in self.blocks("impl"):
            h = hdr
            # strip generics right after impl
            body = re.sub(r"^impl\s*", "", h)
            if body.startswith("<"):
                # skip balanced <>
                d, k = 0, 0
                for k, ch in enumerate(body):
                    if ch == "<":
                        d += 1
                    elif ch == ">" and body[k - 1] != "-":
                        d -= 1
                        if d == 0:
                            break
                body = body[k + 1:].strip()
            body = re.split(r"\bwhere\b", body)[0].strip()
            if " for " in body:
                tr, ty = body.split(" for ", 1)
            else:
                tr, ty = None, body
            ty_base = re.match(r"[A-Za-z_][A-Za-z0-9_]*", ty.strip())
            ty_base = ty_base.group(0) if ty_base else ty
            tr_base = None
            if tr is not None:
                tr_base = re.match(r"(?:[A-Za-z_][A-Za-z0-9_]*::)*([A-Za-z_][A-Za-z0-9_]*)", tr.strip()).group(1)
            if ty_base == type_name and tr_base == trait_name:
                out.append((hdr, s, ob, cb))
        return out

    def find_trait(self, name):
        return [b for b in self.blocks("trait") if re.match(r"(pub(\([a-z]+\))? )?(unsafe )?trait " + re.escape(name) + r"\b", b[0])]

    def find_fn_in(self, name, lo, hi, depth):
        """Locate `fn name` between lo and hi at the given brace depth.
        Returns (start, body_open or -1, end_exclusive)."""
        res = []
        for m in re.finditer(r"\bfn\s+" + re.escape(name) + r"\b", self.masked[lo:hi]):
            at = lo + m.start()
            if self.depth[at] != depth:
                continue
            start = line_start(self.text, at)
            # the fn keyword must be preceded on its line only by qualifiers
            pre = self.masked[start:at].strip()
            if pre and not re.fullmatch(r"(pub(\([a-z]+\))?\s*)?((const|unsafe|async|extern)\s*)*", pre + " "):
                continue
            ob = next_body_brace(self.masked, at)
            if ob < 0:
                semi = self.masked.find(";", at)
                res.append((start, -1, semi + 1))
            else:
                res.append((start, ob, match_close(self.masked, ob) + 1))
        return res

    def locate_fn(self, selector):
        sel = selector.strip()
        m = re.fullmatch(r"<(\w+) as (\w+)>::(\w+)", sel)
        cands = []
        if m:
            for hdr, s, ob, cb in self.find_impl(m.group(1), m.group(2)):
                cands += [(c, hdr) for c in self.find_fn_in(m.group(3), ob, cb, 1)]
            kind = "trait-impl"
        elif sel.startswith("trait "):
            tn, fn = sel[6:].split("::")
            for hdr, s, ob, cb in self.find_trait(tn):
                cands += [(c, hdr) for c in self.find_fn_in(fn, ob, cb, 1)]
            kind = "trait-decl"
        elif "::" in sel:
            tn, fn = sel.split("::")
            for hdr, s, ob, cb in self.find_impl(tn, None):
                cands += [(c, hdr) for c in self.find_fn_in(fn, ob, cb, 1)]
            kind = "inherent"
        else:
            cands = [(c, "") for c in self.find_fn_in(sel, 0, len(self.text), 0)]
            kind = "free"
        if len(cands) != 1:
            raise ExtractError(f"{self.rel}: selector `{selector}` matches {len(cands)} items (lost anchor)")
        (start, ob, end), hdr = cands[0]
        return start, ob, end, kind, hdr

    def locate_item(self, kind, name, nth=None):
        if kind == "impl":
            m = re.fullmatch(r"<(\w+) as (\w+)>", name)
            bl = self.find_impl(m.group(1), m.group(2)) if m else self.find_impl(name, None)
            if nth is not None and 1 <= nth <= len(bl):
                bl = [bl[nth - 1]]
            if len(bl) != 1:
                raise ExtractError(f"{self.rel}: impl `{name}` matches {len(bl)} blocks")
            hdr, s, ob, cb = bl[0]
            return s, cb + 1
        if kind == "trait":
            bl = self.find_trait(name)
            if len(bl) != 1:
                raise ExtractError(f"{self.rel}: trait `{name}` matches {len(bl)} blocks")
            hdr, s, ob, cb = bl[0]
            return s, cb + 1
        pat = {"struct": r"\bstruct\s+", "enum": r"\benum\s+", "const": r"\bconst\s+", "type": r"\btype\s+"}[kind]
        hits = []
        for m in re.finditer(pat + re.escape(name) + r"\b", self.masked):
            # items are looked for at the top level; `nth=0` also accepts an item nested in a function body
            if self.depth[m.start()] != 0 and nth != 0:
                continue
            start = line_start(self.text, m.start())
            if kind in ("struct", "enum"):
                ob = next_body_brace(self.masked, m.end())
                if ob >= 0:
                    end = match_close(self.masked, ob) + 1
                else:
                    end = self.masked.find(";", m.end()) + 1
            else:
                end = self.masked.find(";", m.end()) + 1
            hits.append((start, end))
        if len(hits) != 1:
            raise ExtractError(f"{self.rel}: {kind} `{name}` matches {len(hits)} items")
        return hits[0]

    def derives_before(self, start):
        """derive list found in attribute lines immediately preceding `start`."""
        ds = []
        pos = start
        while True:
            prev_end = pos - 1
            if prev_end <= 0:
                break
            ps = line_start(self.text, prev_end)
            ln = self.text[ps:prev_end].strip()
            if ln.startswith("#[") or ln.startswith("///") or ln.startswith("//"):
                m = re.match(r"#\[derive\((.*)\)\]", ln)
                if m:
                    ds += [d.strip() for d in m.group(1).split(",")]
                pos = ps
            else:
                break
        return ds


# ----------------------------------------------------------------------------- rewrite rules

def _keep_newlines(old, new):
    d = old.count("\n") - new.count("\n")
    if d < 0:
        raise ExtractError("rewrite would add lines")
    return new + "\n" * d


def _sub_masked(text, pattern, repl_fn, flags=0):
    """re.sub on code positions only (matches are searched in the masked text)."""
    m_text = mask(text)
    out, last = [], 0
    n = 0
    for m in re.finditer(pattern, m_text, flags):
        new = repl_fn(m, text)
        if new is None:
            continue
        out.append(text[last:m.start()])
        out.append(_keep_newlines(text[m.start():m.end()], new))
        last = m.end()
        n += 1
    out.append(text[last:])
    return "".join(out), n


def rule_vis(text, applied):
    """pub(crate)/pub(super) -> pub (visibility is dropped, DESIGN 2.1)."""
    t, n = _sub_masked(text, r"\bpub\((crate|super|self)\)", lambda m, s: "pub")
    return t


def rule_tracing(text, applied):
    """Remove tracing::…!(…); statements (dropped, DESIGN 2.1)."""
    m_text = mask(text)
    out, last = [], 0
    for m in re.finditer(r"\btracing::(trace|debug|info|warn|error)!\s*\(", m_text):
        if m.start() < last:
            continue
        cp = match_close(m_text, m.end() - 1)
        end = cp + 1
        k = end
        while k < len(m_text) and m_text[k] in " \t":
            k += 1
        if k < len(m_text) and m_text[k] == ";":
            end = k + 1
        out.append(text[last:m.start()])
        out.append("\n" * text[m.start():end].count("\n"))
        last = end
        applied.append("drop-tracing")
    out.append(text[last:])
    return "".join(out)


def rule_R1(text, applied):
    t, n = _sub_masked(text, r"\bunsafe\s*(?=\{)", lambda m, s: "")
    t, n2 = _sub_masked(t, r"\bunsafe\s+(?=fn\b)", lambda m, s: "")
    if n + n2:
        applied.append(f"R1x{n + n2}")
    return t


def _method_call_rewrite(text, method, build):
    """Rewrite `.method(ARGS)` occurrences; build(args_text) -> replacement for `.method(ARGS)`."""
    count = 0
    while True:
        m_text = mask(text)
        m = re.search(r"\s*\.\s*" + method + r"\s*\(", m_text)
        if not m:
            break
        op = m.end() - 1
        cp = match_close(m_text, op)
        args = text[op + 1:cp]
        new = build(args)
        old = text[m.start():cp + 1]
        text = text[:m.start()] + _keep_newlines(old, new) + text[cp + 1:]
        count += 1
    return text, count


def rule_R2(text, applied):
    t, a = _method_call_rewrite(text, "get_unchecked_mut", lambda args: f"[{args.strip()}]")
    t, b = _method_call_rewrite(t, "get_unchecked", lambda args: f"[{args.strip()}]")
    if a + b:
        applied.append(f"R2x{a + b}")
    return t


def rule_R2ref(text, applied):
    """a whole chain `E.get_unchecked(A)[.get_unchecked(B)]` used as a reference -> `(&E[A][B])`."""
    cnt = 0
    while True:
        m_text = mask(text)
        m = re.search(r"\.\s*get_unchecked\s*\(", m_text)
        if not m:
            break
        start = _receiver_start(m_text, m.start())
        recv = text[start:m.start()]
        idxs = []
        k = m.start()
        while True:
            mm = re.match(r"\s*\.\s*get_unchecked\s*\(", m_text[k:])
            if not mm:
                break
            op = k + mm.end() - 1
            cp = match_close(m_text, op)
            idxs.append(text[op + 1:cp].strip())
            k = cp + 1
        new = "(&" + recv.strip() + "".join(f"[{i}]" for i in idxs) + ")"
        text = text[:start] + _keep_newlines(text[start:k], new) + text[k:]
        cnt += 1
    if cnt:
        applied.append(f"R2refx{cnt}")
    return text


def rule_R3(text, applied):
    cnt = 0
    for mac, op in (("debug_assert_eq", "=="), ("debug_assert_ne", "!="), ("assert_eq", "=="), ("assert_ne", "!=")):
        while True:
            m_text = mask(text)
            m = re.search(r"\b" + mac + r"!\s*\(", m_text)
            if not m:
                break
            op_i = m.end() - 1
            cp = match_close(m_text, op_i)
            inner, inner_m = text[op_i + 1:cp], m_text[op_i + 1:cp]
            parts = split_top_level(inner_m, inner)
            if len(parts) < 2:
                raise ExtractError(f"R3: cannot split {mac}! arguments")
            base = "debug_assert" if mac.startswith("debug") else "assert"
            new = f"{base}!(({parts[0].strip()}) {op} ({parts[1].strip()}))"
            text = text[:m.start()] + _keep_newlines(text[m.start():cp + 1], new) + text[cp + 1:]
            cnt += 1
    if cnt:
        applied.append(f"R3x{cnt}")
    return text


def rule_R4(text, applied):
    t, n = _sub_masked(text, r"\|\s*_\s*\|", lambda m, s: "|_w|")
    if n:
        applied.append(f"R4x{n}")
    return t


def rule_R5(text, applied):
    """`break EXPR;` -> `return EXPR;` — only legal when the enclosing `loop` is the tail
    expression of the function; checked: the function body's last statement is that loop."""
    m_text = mask(text)
    hits = list(re.finditer(r"\bbreak\s+(?!;)(?!')", m_text))
    if not hits:
        return text
    # check tail-loop condition: body ends with `}` of a `loop` whose close is the last token
    ob = next_body_brace(m_text, m_text.find("fn "))
    cb = match_close(m_text, ob)
    inner = m_text[ob + 1:cb].rstrip()
    if not inner.endswith("}"):
        raise ExtractError("R5: break-with-value but the function does not end in a loop")
    last_close = ob + 1 + len(inner) - 1
    # find the loop that closes there
    ok = False
    for lm in re.finditer(r"\bloop\b", m_text):
        lob = next_body_brace(m_text, lm.end())
        if lob >= 0 and match_close(m_text, lob) == last_close:
            # all break-with-value must be inside this loop and not inside a nested loop
            ok = all(lob < h.start() < last_close for h in hits)
            # no nested loops containing the break
            for h in hits:
                for nm in re.finditer(r"\b(loop|while|for)\b", m_text[lob + 1:last_close]):
                    nob = next_body_brace(m_text, lob + 1 + nm.end())
                    if nob >= 0 and nob < h.start() < match_close(m_text, nob):
                        ok = False
            break
    if not ok:
        raise ExtractError("R5: break-with-value not in a tail `loop`")
    t, n = _sub_masked(text, r"\bbreak\s+(?!;)(?!')", lambda m, s: "return ")
    applied.append(f"R5x{n}")
    return t


def rule_R8max(text, applied):
    """`A.max(B)` (inherent Ord::max on integers) -> `vmax(A, B)`; A must be a simple path."""
    cnt = 0
    while True:
        m_text = mask(text)
        m = re.search(r"((?:[A-Za-z_][A-Za-z0-9_]*\.)*[A-Za-z_][A-Za-z0-9_]*)\s*\.\s*max\s*\(", m_text)
        if not m:
            break
        op = m.end() - 1
        cp = match_close(m_text, op)
        recv = text[m.start(1):m.end(1)]
        args = text[op + 1:cp].strip()
        if not args:
            # zero-argument `.max()` is some other method (e.g. Mapping::max); protect it and continue
            text = text[:m.start()] + recv + ".\x00max(" + text[op + 1:]
            continue
        new = f"vmax({recv}, {args})"
        text = text[:m.start()] + _keep_newlines(text[m.start():cp + 1], new) + text[cp + 1:]
        cnt += 1
    text = text.replace("\x00", "")
    if cnt:
        applied.append(f"R8maxx{cnt}")
    return text


def rule_R8cmpmax(text, applied):
    """`cmp::max(A, B)` / `std::cmp::max(A, B)` on usize -> `vmax(A, B)` (verified helper)."""
    t, n = _sub_masked(text, r"\b(?:std::|core::)?cmp::max\s*(?=\()", lambda m, s: "vmax")
    if n:
        applied.append(f"R8cmpmaxx{n}")
    return t


def rule_R8resize_none(text, applied):
    """`RECV.resize_with(N, || std::array::from_fn(|_| None))` -> `vresize_with_none(&mut RECV, N)`
    (trusted helper standing for the two std calls; closures carry no inferred postcondition in Verus)."""
    cnt = 0
    while True:
        m_text = mask(text)
        m = re.search(r"((?:[A-Za-z_][A-Za-z0-9_]*\s*\.\s*)*[A-Za-z_][A-Za-z0-9_]*)\s*\.\s*resize_with\s*\(", m_text)
        if not m:
            break
        op = m.end() - 1
        cp = match_close(m_text, op)
        inner, inner_m = text[op + 1:cp], m_text[op + 1:cp]
        parts = split_top_level(inner_m, inner)
        if len(parts) != 2 or not re.fullmatch(r"\|\|\s*std::array::from_fn\(\|_w?\|\s*None\)", parts[1].strip()):
            raise ExtractError("R8resize_none: resize_with closure is not `|| std::array::from_fn(|_| None)` (outside the subset)")
        recv = "".join(text[m.start(1):m.end(1)].split())
        new = f"vresize_with_none(&mut {recv}, {parts[0].strip()})"
        text = text[:m.start()] + _keep_newlines(text[m.start():cp + 1], new) + text[cp + 1:]
        cnt += 1
    if cnt:
        applied.append(f"R8resize_nonex{cnt}")
    return text


def rule_R13(text, applied, name=None):
    """havoc of a local: `let NAME = EXPR;` -> `let NAME = vhavoc();` (over-approximation; EXPR lies
    outside the subset and NAME's value is mentioned by no contract).  Panics inside EXPR are not covered."""
    m_text = mask(text)
    ms = list(re.finditer(r"\blet\s+(mut\s+)?" + re.escape(name) + r"\b([^=;]*)=", m_text))
    if len(ms) != 1:
        raise ExtractError(f"R13: `let {name} =` found {len(ms)} times (lost anchor)")
    m = ms[0]
    # end of statement: first `;` at bracket depth 0
    depth, k = 0, m.end()
    while k < len(m_text):
        ch = m_text[k]
        if ch in "([{":
            depth += 1
        elif ch in ")]}":
            depth -= 1
        elif ch == ";" and depth == 0:
            break
        k += 1
    old = text[m.end():k]
    text = text[:m.end()] + _keep_newlines(old, " vhavoc()") + text[k:]
    applied.append(f"R13({name}: {' '.join(old.split())[:80]})")
    return text


def rule_R7(text, applied, arg=None):
    """`for (I, X) in E.iter()[.cloned()].enumerate() {` -> index `while` loop over E (same lines).
    Element access: `E[I]` by reference for `.iter().enumerate()`, a clone of it for `.iter().cloned()`;
    arg `indexset` uses `E.get_index(I).unwrap()` (IndexSet iterates in index order).  Refuses bodies
    containing `continue` or labelled breaks."""
    cnt = 0
    while True:
        m_text = mask(text)
        m = re.search(r"\bfor\s*\(\s*(\w+)\s*,\s*(\w+)\s*\)\s*in\s+([\w\.]+?)\s*\.\s*iter\(\)\s*(\.\s*cloned\(\)\s*)?\.\s*enumerate\(\)\s*\{", m_text)
        if not m:
            break
        i_name, x_name, coll, cloned = m.group(1), m.group(2), "".join(m.group(3).split()), bool(m.group(4))
        ob = m.end() - 1
        cb = match_close(m_text, ob)
        body = m_text[ob + 1:cb]
        if re.search(r"\bcontinue\b|\bbreak\s*'", body):
            raise ExtractError("R7: loop body contains continue / labelled break (outside the subset)")
        if arg == "indexset" and cloned:
            acc = f"{coll}.get_index({i_name}).unwrap().clone()"
        elif cloned:
            acc = f"{coll}[{i_name}].clone()"
        else:
            acc = f"&{coll}[{i_name}]"
        head = f"let mut {i_name}: usize = 0; while {i_name} < {coll}.len() {{ let {x_name} = {acc};"
        tail = f"; {i_name} += 1; }}"
        text = text[:m.start()] + _keep_newlines(text[m.start():ob + 1], head) + text[ob + 1:cb] + tail + text[cb + 1:]
        cnt += 1
    if cnt:
        applied.append(f"R7x{cnt}" + (f"({arg})" if arg else ""))
    return text


def rule_R7ref(text, applied):
    """`for &PAT in [&]E {` over a slice/Vec of Copy elements -> increment-first index loop (continue-safe):
    `let mut iN_: usize = 0; while iN_ < E.len() { let PAT = E[iN_]; iN_ += 1;`.  If E is not a plain path it
    is first bound to a local (`let cN_ = E;`)."""
    cnt = 0
    while True:
        m_text = mask(text)
        m = re.search(r"\bfor\s*&\s*(\w+|\([^)]*\))\s+in\s+", m_text)
        if not m:
            break
        ob = next_body_brace(m_text, m.end())
        if ob < 0:
            raise ExtractError("R7ref: no loop body")
        expr = text[m.end():ob].strip()
        pat = text[m.start(1):m.end(1)]
        iv = f"j{cnt}_"
        if re.fullmatch(r"&?\s*[\w\.]+", expr):
            coll = "".join(expr.lstrip("&").split())
            head = f"let mut {iv}: usize = 0; while {iv} < {coll}.len() {{ let {pat} = {coll}[{iv}]; {iv} += 1;"
        else:
            cv = f"c{cnt}_"
            head = f"let {cv} = {expr}; let mut {iv}: usize = 0; while {iv} < {cv}.len() {{ let {pat} = {cv}[{iv}]; {iv} += 1;"
        text = text[:m.start()] + _keep_newlines(text[m.start():ob + 1], head) + text[ob + 1:]
        cnt += 1
    if cnt:
        applied.append(f"R7refx{cnt}")
    return text


def rule_R7array(text, applied):
    """`for (I, X) in E.into_iter().enumerate() {` over a Copy array -> index loop with `let X = E[I];`"""
    cnt = 0
    while True:
        m_text = mask(text)
        m = re.search(r"\bfor\s*\(\s*(\w+)\s*,\s*(\w+)\s*\)\s*in\s+([\w\.]+?)\s*\.\s*into_iter\(\)\s*\.\s*enumerate\(\)\s*\{", m_text)
        if not m:
            break
        i_name, x_name, coll = m.group(1), m.group(2), "".join(m.group(3).split())
        ob = m.end() - 1
        cb = match_close(m_text, ob)
        if re.search(r"\bcontinue\b|\bbreak\b", m_text[ob + 1:cb]):
            raise ExtractError("R7array: loop body contains continue/break")
        head = f"let mut {i_name}: usize = 0; while {i_name} < {coll}.len() {{ let {x_name} = {coll}[{i_name}];"
        tail = f"; {i_name} += 1; }}"
        text = text[:m.start()] + _keep_newlines(text[m.start():ob + 1], head) + text[ob + 1:cb] + tail + text[cb + 1:]
        cnt += 1
    if cnt:
        applied.append(f"R7arrayx{cnt}")
    return text


def rule_R17(text, applied):
    """destructuring parameter pattern `Type { a, b }: Type<'x>` -> named parameter `arg_: Type<'x>` plus
    `let Type { a, b } = arg_;` as the first statement of the body."""
    m_text = mask(text)
    fn_kw = re.search(r"\bfn\b", m_text).start()
    m = re.search(r"(\w+)\s*\{([^{}]*)\}\s*:\s*(\w+(?:<[^>]*>)?)", m_text[fn_kw:])
    if not m:
        raise ExtractError("R17: no destructuring parameter (lost anchor)")
    a, b = fn_kw + m.start(), fn_kw + m.end()
    pat = " ".join(text[a:fn_kw + m.end(2) + 1].split())
    ty = text[fn_kw + m.start(3):b]
    ob = next_body_brace(m_text, fn_kw)
    new_param = _keep_newlines(text[a:b], f"arg_: {ty}")
    text = text[:a] + new_param + text[b:ob + 1] + f" let {pat} = arg_;" + text[ob + 1:]
    applied.append("R17x1")
    return text


def rule_R16(text, applied):
    """HashMap entry API -> get/insert (documented equivalence of std::collections::hash_map::Entry):
      `match M.entry(K) {`                  -> `match M.get(&K).copied() {`
      `Entry::Occupied(E) => *E.get(),`     -> `Some(v_) => v_,`
      `Entry::Vacant(E) =>`                 -> `None =>`
      `E.insert(X);`                        -> `M.insert(K, X);`
    K must be Copy (it is used twice); a shape outside these four patterns is refused."""
    m_text = mask(text)
    m = re.search(r"\bmatch\s+((?:\w+\.)*\w+)\.entry\((\w+)\)\s*\{", m_text)
    if not m:
        raise ExtractError("R16: `match M.entry(K) {` not found (lost anchor)")
    mp, key = m.group(1), m.group(2)
    text = text[:m.start()] + f"match {mp}.get(&{key}).copied() {{" + text[m.end():]
    t, n1 = _sub_masked(text, r"Entry::Occupied\((\w+)\)\s*=>\s*\*\s*\1\.get\(\)", lambda mm, s: "Some(v_) => v_")
    m2 = re.search(r"Entry::Vacant\((\w+)\)\s*=>", mask(t))
    if n1 != 1 or not m2:
        raise ExtractError("R16: Occupied/Vacant arms are not in the expected shape (outside the subset)")
    ev = m2.group(1)
    t = t[:m2.start()] + "None =>" + t[m2.end():]
    t, n3 = _sub_masked(t, r"\b" + re.escape(ev) + r"\.insert\(", lambda mm, s: f"{mp}.insert({key}, ")
    if n3 != 1:
        raise ExtractError("R16: vacant entry is not inserted exactly once (outside the subset)")
    applied.append(f"R16({mp}.entry({key}))")
    return t


def rule_R16push(text, applied):
    """`M.entry(K).or_default().push(X)` -> `ventry_push(&mut M, K, X)` (entry API: create the value empty if absent,
    append X; helper with that contract in prelude/indexmap_stub.rs)."""
    t, n = _sub_masked(text, r"((?:\w+\s*\.\s*)*\w+)\s*\.\s*entry\((\w+)\)\s*\.\s*or_default\(\)\s*\.\s*push\(",
                       lambda m, s_: f"ventry_push(&mut {''.join(m.group(1).split())}, {m.group(2)}, ")
    if n:
        applied.append(f"R16pushx{n}")
    return t


def rule_R22(text, applied):
    """an `impl IntoIterator<Item = T>` parameter that is only peeked and searched -> the materialised sequence:
      `X: impl IntoIterator<Item = T>`            -> `X: Vec<T>`
      `let mut X = X.into_iter().peekable();`     -> (dropped; X is the sequence itself)
      `X.peek().copied()`                         -> `vfirst_copied(&X)`    (peek does not consume)
      `X.find(|&c| P)`                            -> a first-match loop `{ let mut fi_ = 0; let mut found_ = None;
                                                     while fi_ < X.len() { let c = X[fi_]; if P { found_ = Some(c);
                                                     break; } fi_ += 1; } found_ }` (std definition of Iterator::find
                                                     on the not yet consumed sequence)
    Any other use of X makes the result fail to type-check (=> undecided)."""
    m_text = mask(text)
    m = re.search(r"\b(\w+)\s*:\s*impl\s+IntoIterator\s*<\s*Item\s*=\s*(\w+)\s*>", m_text)
    if not m:
        raise ExtractError("R22: no `impl IntoIterator<Item = T>` parameter (lost anchor)")
    x, ty = m.group(1), m.group(2)
    text = text[:m.start()] + f"{x}: Vec<{ty}>" + text[m.end():]
    text, n1 = _sub_masked(text, r"\blet\s+mut\s+" + x + r"\s*=\s*" + x + r"\s*\.\s*into_iter\(\)\s*\.\s*peekable\(\)\s*;", lambda mm, s_: "")
    text, n2 = _sub_masked(text, r"\b" + x + r"\s*\.\s*peek\(\)\s*\.\s*copied\(\)", lambda mm, s_: f"vfirst_copied(&{x})")
    n3 = 0
    while True:
        m_text = mask(text)
        fm = re.search(r"\b" + x + r"\s*\.\s*find\s*\(\s*\|\s*&\s*(\w+)\s*\|", m_text)
        if not fm:
            break
        op = m_text.index("(", fm.start())
        cp = match_close(m_text, op)
        body = text[fm.end():cp].strip().rstrip(",").strip()
        c = fm.group(1)
        new = (f"{{ let mut fi_: usize = 0; let mut found_: Option<{ty}> = None; while fi_ < {x}.len() {{ let {c} = {x}[fi_]; "
               f"if {body} {{ found_ = Some({c}); break; }} fi_ += 1; }} found_ }}")
        text = text[:fm.start()] + _keep_newlines(text[fm.start():cp + 1], new) + text[cp + 1:]
        n3 += 1
    applied.append(f"R22({x}: peekable x{n1}, peek x{n2}, find x{n3})")
    return text


def rule_R22flat(text, applied):
    """`X.iter().flatten().copied()` passed as a sequence argument -> `vflatten_copied(&X)` (the concatenation of
    the inner vectors, by value)."""
    t, n = _sub_masked(text, r"((?:\w+\s*\.\s*)*\w+)\s*\.\s*iter\(\)\s*\.\s*flatten\(\)\s*\.\s*copied\(\)",
                       lambda m, s_: f"vflatten_copied(&{''.join(m.group(1).split())})")
    if n:
        applied.append(f"R22flatx{n}")
    return t


def rule_R23(text, applied):
    """`for (A, B) in E1.version_sets(P).zip(E2) {` -> index loop over the shorter of the two sequences (std definition
    of Iterator::zip): `let vs_ = vversion_sets(E1, P); let mut zi_: usize = 0; while zi_ < vs_.len() && zi_ < E2.len()
    { let A = vs_[zi_]; let B = &E2[zi_]; zi_ += 1;` (continue/break keep their meaning).  vversion_sets returns the
    sequence that Requirement::version_sets yields (trusted helper)."""
    cnt = 0
    while True:
        m_text = mask(text)
        m = re.search(r"\bfor\s*\(\s*(\w+)\s*,\s*(\w+)\s*\)\s*in\s+([\w\.]+?)\s*\.\s*version_sets\(([^()]*(?:\([^()]*\))?[^()]*)\)\s*\.\s*zip\(\s*([\w\.]+)\s*\)\s*\{", m_text)
        if not m:
            break
        a, b, e1, p_, e2 = m.group(1), m.group(2), m.group(3), " ".join(text[m.start(4):m.end(4)].split()), m.group(5)
        head = (f"let vs_ = vversion_sets({e1}, {p_}); let mut zi_: usize = 0; while zi_ < vs_.len() && zi_ < {e2}.len() "
                f"{{ let {a} = vs_[zi_]; let {b} = &{e2}[zi_]; zi_ += 1;")
        text = text[:m.start()] + _keep_newlines(text[m.start():m.end()], head) + text[m.end():]
        cnt += 1
    if cnt:
        applied.append(f"R23x{cnt}")
    return text


def rule_R24(text, applied):
    """`X.iter().try_fold(INIT, |ACC, &C| { BODY })` -> the std definition of try_fold as a loop:
      { let mut acc_ = INIT; let mut res_ = None; let mut ti_: usize = 0;
        while ti_ < X.len() { let ACC = acc_; let C = X[ti_]; ti_ += 1;
            let step_ = { BODY' };                       // BODY' = BODY with the closure's `return E;` -> `{ res_ = Some(E); break; }`
            match step_ { ControlFlow::Continue(c_) => { acc_ = c_; } ControlFlow::Break(b_) => { res_ = Some(ControlFlow::Break(b_)); break; } } }
        match res_ { Some(r_) => r_, None => ControlFlow::Continue(acc_) } }"""
    cnt = 0
    while True:
        m_text = mask(text)
        m = re.search(r"([\w\.]+?)\s*\.\s*iter\(\)\s*\.\s*try_fold\s*\(", m_text)
        if not m:
            break
        x = m.group(1)
        op = m.end() - 1
        cp = match_close(m_text, op)
        # INIT = everything up to the top-level comma before the closure
        d = 0
        bar = -1
        for q in range(op + 1, cp):
            ch = m_text[q]
            if ch in "([{":
                d += 1
            elif ch in ")]}":
                d -= 1
            elif ch == "|" and d == 0:
                bar = q
                break
        if bar < 0:
            raise ExtractError("R24: try_fold closure not found")
        init = text[op + 1:bar].rstrip().rstrip(",")
        cm = re.match(r"\|\s*(\w+)\s*,\s*&\s*(\w+)\s*\|\s*\{", m_text[bar:cp])
        if not cm:
            raise ExtractError("R24: closure is not of the form |acc, &x| { .. }")
        acc, c = cm.group(1), cm.group(2)
        ob = bar + cm.end() - 1
        cb = match_close(m_text, ob)
        body = text[ob + 1:cb]
        if re.search(r"\|[^|]*\|", mask(body)):
            raise ExtractError("R24: nested closure in try_fold body")
        body, _n = _sub_masked(body, r"\breturn\s+([^;]+);", lambda mm, s_: "{ res_ = Some(" + s_[mm.start(1):mm.end(1)] + "); break; }")
        head = (f"{{ let mut acc_ = {init}; let mut res_ = None; let mut ti_: usize = 0; while ti_ < {x}.len() "
                f"{{ let {acc} = acc_; let {c} = {x}[ti_]; ti_ += 1; let step_ = {{")
        tail = ("}; match step_ { ControlFlow::Continue(c_) => { acc_ = c_; } ControlFlow::Break(b_) => { res_ = Some(ControlFlow::Break(b_)); break; } } } "
                "match res_ { Some(r_) => r_, None => ControlFlow::Continue(acc_) } }")
        text = text[:m.start()] + _keep_newlines(text[m.start():ob + 1], head) + body + _keep_newlines(text[cb:cp + 1], tail) + text[cp + 1:]
        cnt += 1
    if cnt:
        applied.append(f"R24x{cnt}")
    return text


def rule_R25(text, applied):
    """`X.iter().flatten().take(N).collect::<Vec<_>>()` over a Vec of 128-slot chunks -> `vflatten_take(&X, N)`
    (verified helper, prelude/flatten_take.rs: references to the first N slots in slot order)."""
    t, n = _sub_masked(text, r"((?:\w+\s*\.\s*)*\w+)\s*\.\s*iter\(\)\s*\.\s*flatten\(\)\s*\.\s*take\(([^()]*(?:\([^()]*\))?[^()]*)\)\s*\.\s*collect::<Vec<_>>\(\)",
                       lambda m, s_: f"vflatten_take(&{''.join(m.group(1).split())}, {' '.join(s_[m.start(2):m.end(2)].split())})")
    if n:
        applied.append(f"R25x{n}")
    return t


def rule_R7optake(text, applied):
    """`for (I, X) in E.into_iter().enumerate() {` over an owned Vec<Option<T>> -> index loop that moves each element
    out with Option::take: `let mut own_ = E; let mut I: usize = 0; while I < own_.len() { let X = own_[I].take();`
    and `I += 1;` as the last statement of the body (each element is consumed exactly once, in order)."""
    m_text = mask(text)
    m = re.search(r"\bfor\s*\(\s*(\w+)\s*,\s*(\w+)\s*\)\s*in\s+(\w+)\s*\.\s*into_iter\(\)\s*\.\s*enumerate\(\)\s*\{", m_text)
    if not m:
        raise ExtractError("R7optake: loop not found (lost anchor)")
    i_, x_, e_ = m.group(1), m.group(2), m.group(3)
    ob = m.end() - 1
    cb = match_close(m_text, ob)
    if re.search(r"\bcontinue\b", m_text[ob:cb]):
        raise ExtractError("R7optake: loop body uses continue (outside the subset)")
    head = f"let mut own_ = {e_}; let mut {i_}: usize = 0; while {i_} < own_.len() {{ let {x_} = own_[{i_}].take();"
    text = text[:m.start()] + _keep_newlines(text[m.start():m.end()], head) + text[m.end():cb] + f"{i_} += 1; " + text[cb:]
    applied.append("R7optake")
    return text


def rule_R26(text, applied):
    """`X.stack().filter(|d| F1)...filter(|d| Fk).map(|d| M).collect()` (DecisionTracker::stack() is
    `self.stack.iter().copied()`) -> the loop that is the std definition of filter/map/collect:
      { let mut out_ = Vec::new(); let mut si_: usize = 0;
        while si_ < X.stack.len() { let d = &X.stack[si_]; si_ += 1;
            <for every filter>  EXPR closure:  if !(EXPR) { continue; }
                                BLOCK closure: its statements with `return false;` -> `continue;`, then `if !(TAIL) { continue; }`
            out_.push(M); }
        out_ }
    A `return true;` inside a filter closure, or any other adapter, is outside the subset."""
    m_text = mask(text)
    m = re.search(r"((?:\w+\s*\.\s*)*\w+)\s*\.\s*stack\(\)\s*(?:\.\s*filter\s*\()", m_text)
    if not m:
        raise ExtractError("R26: `X.stack().filter(..)` chain not found (lost anchor)")
    recv = "".join(m.group(1).split())
    pos = m_text.index(".", m.end(1))           # the `.stack()` dot
    pos = m_text.index(")", pos) + 1            # after `stack()`
    parts = []
    var = None
    while True:
        mm = re.match(r"\s*\.\s*(filter|map|collect)\s*(?:::<[^>]*>)?\s*\(", m_text[pos:])
        if not mm:
            break
        kind = mm.group(1)
        op = pos + mm.end() - 1
        cp = match_close(m_text, op)
        arg = text[op + 1:cp]
        if kind == "collect":
            pos = cp + 1
            parts.append(("collect", None))
            break
        cm = re.match(r"\s*\|\s*(\w+)\s*\|\s*", mask(arg))
        if not cm:
            raise ExtractError("R26: adapter argument is not a closure literal |d| ..")
        v = cm.group(1)
        if var is None:
            var = v
        elif var != v:
            raise ExtractError("R26: closures use different parameter names")
        body = arg[cm.end():].strip().rstrip(",").strip()
        parts.append((kind, body))
        pos = cp + 1
    if not parts or parts[-1][0] != "collect" or len([p_ for p_ in parts if p_[0] == "map"]) != 1 or parts[-2][0] != "map":
        raise ExtractError("R26: chain is not filter*.map.collect (outside the subset)")
    code = f"{{ let mut out_ = Vec::new(); let mut si_: usize = 0; while si_ < {recv}.stack.len() {{ let {var} = &{recv}.stack[si_]; si_ += 1; "
    for kind, body in parts[:-1]:
        if kind == "filter":
            if mask(body).startswith("{"):
                inner = body[1:match_close(mask(body), 0)]
                mi = mask(inner)
                if re.search(r"\breturn\s+true\b", mi):
                    raise ExtractError("R26: `return true` in a filter closure (outside the subset)")
                inner, _n = _sub_masked(inner, r"\breturn\s+false\s*;", lambda mm_, s_: "continue;")
                # split off the tail expression (after the last top-level `;`)
                mi = mask(inner)
                d_ = 0
                last = -1
                for q, ch in enumerate(mi):
                    if ch in "([{":
                        d_ += 1
                    elif ch in ")]}":
                        d_ -= 1
                    elif ch == ";" and d_ == 0:
                        last = q
                stm, tail = inner[:last + 1], inner[last + 1:]
                code += stm + f" if !({tail.strip()}) {{ continue; }} "
            else:
                code += f"if !({body}) {{ continue; }} "
        else:
            code += f"out_.push({body}); "
    code += "} out_ }"
    text = text[:m.start(1)] + _keep_newlines(text[m.start(1):pos], code) + text[pos:]
    applied.append(f"R26({len(parts) - 2} filters)")
    return text


def rule_R26fm(text, applied):
    """a function that returns `X.stack().filter_map(|d| BODY)` as `impl Iterator<Item = T> + '_` is verified as the
    sequence that iterator yields: return type `Vec<T>`, body
      { let mut out_ = Vec::new(); let mut si_: usize = 0;
        while si_ < X.stack.len() { let d = &X.stack[si_]; si_ += 1; match BODY { Some(x_) => { out_.push(x_); } None => {} } }
        out_ }
    (std definition of filter_map; DecisionTracker::stack() = `self.stack.iter().copied()`)."""
    m_text = mask(text)
    rm = re.search(r"->\s*impl\s+Iterator\s*<\s*Item\s*=\s*(\w+)\s*>\s*\+\s*'_", m_text)
    if not rm:
        raise ExtractError("R26fm: return type is not `impl Iterator<Item = T> + '_` (lost anchor)")
    text = text[:rm.start()] + f"-> Vec<{rm.group(1)}>" + text[rm.end():]
    m_text = mask(text)
    m = re.search(r"((?:\w+\s*\.\s*)*\w+)\s*\.\s*stack\(\)\s*\.\s*filter_map\s*\(", m_text)
    if not m:
        raise ExtractError("R26fm: `X.stack().filter_map(..)` not found (lost anchor)")
    recv = "".join(m.group(1).split())
    op = m.end() - 1
    cp = match_close(m_text, op)
    arg = text[op + 1:cp]
    cm = re.match(r"\s*\|\s*(\w+)\s*\|\s*", mask(arg))
    if not cm:
        raise ExtractError("R26fm: filter_map argument is not a closure literal")
    var = cm.group(1)
    body = arg[cm.end():].strip().rstrip(",").strip()
    if re.search(r"\breturn\b", mask(body)):
        raise ExtractError("R26fm: `return` in the closure (outside the subset)")
    code = (f"{{ let mut out_ = Vec::new(); let mut si_: usize = 0; while si_ < {recv}.stack.len() {{ let {var} = &{recv}.stack[si_]; si_ += 1; "
            f"match {body} {{ Some(x_) => {{ out_.push(x_); }} None => {{}} }} }} out_ }}")
    text = text[:m.start(1)] + _keep_newlines(text[m.start(1):cp + 1], code) + text[cp + 1:]
    applied.append("R26fm")
    return text


def rule_R6(text, applied):
    """receiver `mut self` -> `self` plus `let mut self_ = self;` as first statement; `self` -> `self_` in the body."""
    m_text = mask(text)
    fn_kw = re.search(r"\bfn\b", m_text).start()
    m = re.search(r"\(\s*mut\s+self\b", m_text[fn_kw:])
    if not m:
        raise ExtractError("R6: no `mut self` receiver (lost anchor)")
    a = fn_kw + m.start()
    ob = next_body_brace(m_text, fn_kw)
    head = text[:a] + "(self" + text[fn_kw + m.end():ob + 1]
    body = text[ob + 1:]
    body2, n = _sub_masked(body, r"(?<![\w\.])self\b", lambda mm, s_: "self_")
    text = head + " let mut self_ = self;" + body2
    applied.append(f"R6x{n}")
    return text


def rule_R7stack(text, applied):
    """`for D in E.stack() {` (DecisionTracker::stack() = `self.stack.iter().copied()`) -> the R7ref form over the
    field: `for &D in &E.stack {` (then rewritten by R7ref)."""
    t, n = _sub_masked(text, r"\bfor\s+(\w+)\s+in\s+((?:\w+\.)*\w+)\.stack\(\)\s*(?=\{)", lambda m, s: f"for &{m.group(1)} in &{m.group(2)}.stack ")
    if n:
        applied.append(f"R7stackx{n}")
    return t


def rule_R7stackrev(text, applied):
    """DecisionTracker::stack() is `self.stack.iter().copied()` (decision_tracker.rs).
    `for D in E.stack().rev() {` -> `let mut k_: usize = E.stack.len(); while k_ > 0 { k_ -= 1; let D = E.stack[k_];`
    (last to first, continue-safe); `E.stack().last()` -> `vlast_copied(&E.stack)` (Iterator::last of a copied slice
    iterator = the last element, by value)."""
    cnt = 0
    while True:
        m_text = mask(text)
        m = re.search(r"\bfor\s+(\w+)\s+in\s+((?:\w+\s*\.\s*)*\w+)\s*\.\s*stack\(\)\s*\.\s*rev\(\)\s*\{", m_text)
        if not m:
            break
        recv = "".join(m.group(2).split())
        kv = f"k{cnt}_"
        head = f"let mut {kv}: usize = {recv}.stack.len(); while {kv} > 0 {{ {kv} -= 1; let {m.group(1)} = {recv}.stack[{kv}];"
        text = text[:m.start()] + _keep_newlines(text[m.start():m.end()], head) + text[m.end():]
        cnt += 1
    # `next_back()` of the (double-ended) copied slice iterator is its last element as well
    t, n = _sub_masked(text, r"((?:\w+\s*\.\s*)*\w+)\s*\.\s*stack\(\)\s*\.\s*(?:last|next_back)\(\)", lambda m, s_: f"vlast_copied(&{''.join(m.group(1).split())}.stack)")
    # `next()` of a fresh copied slice iterator is its first element
    t, n2 = _sub_masked(t, r"((?:\w+\s*\.\s*)*\w+)\s*\.\s*stack\(\)\s*\.\s*next\(\)", lambda m, s_: f"vfirst_copied(&{''.join(m.group(1).split())}.stack)")
    n += n2
    if cnt or n:
        applied.append(f"R7stackrevx{cnt + n}")
    return t


def rule_R7range(text, applied):
    """`for I in A..B {` -> `let hi_ = B; let mut I_n = A; while I_n < hi_ { let I = I_n; I_n += 1;` (continue-safe;
    the upper bound is evaluated once, as in the original)."""
    cnt = 0
    while True:
        m_text = mask(text)
        m = re.search(r"\bfor\s+(\w+)\s+in\s+([^\{\.]+?)\.\.(?!=)", m_text)
        if not m:
            break
        ob = next_body_brace(m_text, m.end())
        hi = text[m.end():ob].strip()
        lo = text[m.start(2):m.end(2)].strip()
        i_name = m.group(1)
        head = f"let hi{cnt}_: usize = {hi}; let mut r{cnt}_: usize = {lo}; while r{cnt}_ < hi{cnt}_ {{ let {i_name} = r{cnt}_; r{cnt}_ += 1;"
        text = text[:m.start()] + _keep_newlines(text[m.start():ob + 1], head) + text[ob + 1:]
        cnt += 1
    if cnt:
        applied.append(f"R7rangex{cnt}")
    return text


def rule_R14err(text, applied):
    """`E.map_err(|PAT| BODY)?` -> `(match E { Ok(v_) => v_, Err(PAT) => return Err(BODY) })` (std definition of
    map_err followed by `?`; if the error types differ the result no longer type-checks => undecided)."""
    cnt = 0
    while True:
        m_text = mask(text)
        m = re.search(r"\.\s*map_err\s*\(", m_text)
        if not m:
            break
        op = m.end() - 1
        cp = match_close(m_text, op)
        q = re.match(r"\s*\?", m_text[cp + 1:])
        if not q:
            raise ExtractError("R14err: map_err not followed by `?` (outside the subset)")
        clos = text[op + 1:cp].strip()
        cm = re.match(r"\|\s*([\w&]+)\s*\|\s*(.*)$", clos, re.S)
        if not cm:
            raise ExtractError("R14err: map_err argument is not a closure literal")
        pat, body = cm.group(1), cm.group(2).strip().rstrip(",")
        start = _receiver_start(m_text, m.start())
        recv = text[start:m.start()]
        pat2 = "_e" if pat == "_" else pat
        new = f"(match {recv} {{ Ok(v_) => v_, Err({pat2}) => return Err({{ {body} }}) }})"
        end = cp + 1 + q.end()
        text = text[:start] + _keep_newlines(text[start:end], new) + text[end:]
        cnt += 1
    if cnt:
        applied.append(f"R14errx{cnt}")
    return text


def rule_R18(text, applied):
    """`Iterator::try_fold` over the literal sequences of Clause::try_fold_literals -> verified helpers implementing
    the std definition of try_fold (prelude/fold_helpers.rs):
      `[A, B].into_iter().try_fold(I, F)`                                   -> `vtry_fold2(A, B, I, F)`
      `E.iter().copied().try_fold(I, F)`                                    -> `vtry_fold_vec(&E, I, F)`
      `iter::once(X).chain(Y.iter().flatten().map(|&s| s.positive())).try_fold(I, F)` -> `vtry_fold_requires(X, &Y, I, F)`"""
    cnt = 0
    while True:
        m_text = mask(text)
        m = re.search(r"\.\s*try_fold\s*\(", m_text)
        if not m:
            break
        op = m.end() - 1
        cp = match_close(m_text, op)
        args = text[op + 1:cp].strip()
        start = _receiver_start(m_text, m.start())
        # arrays: `[A, B]` receiver start is the '['
        recv = text[start:m.start()]
        flat = "".join(recv.split())
        ma = re.fullmatch(r"\[(.*),(.*?),?\]\.into_iter\(\)", flat)
        mb = re.fullmatch(r"(.*)\.iter\(\)\.copied\(\)", flat)
        mc = re.fullmatch(r"iter::once\((.*?)\)\.chain\((.*)\.iter\(\)\.flatten\(\)\.map\(\|&(\w+)\|\3\.positive\(\)\),?\)", flat)
        if ma:
            new = f"vtry_fold2({ma.group(1)}, {ma.group(2)}, {args})"
        elif mc:
            new = f"vtry_fold_requires({mc.group(1)}, &{mc.group(2)}, {args})"
        elif mb:
            new = f"vtry_fold_vec(&{mb.group(1)}, {args})"
        else:
            raise ExtractError(f"R18: try_fold receiver `{flat[:60]}` is not one of the three known shapes (outside the subset)")
        text = text[:start] + _keep_newlines(text[start:cp + 1], new) + text[cp + 1:]
        cnt += 1
    if cnt:
        applied.append(f"R18x{cnt}")
    return text


def rule_R8frozenindex(text, applied, arg=None):
    """`M[&K]` on a FrozenMap stand-in -> `(*M.vindex(&K))` (Index panics when the key is absent: precondition);
    arg = M (exact path)."""
    t, n = _sub_masked(text, r"(?<![\w\.])" + re.escape(arg) + r"\[\s*&\s*([^\]]+)\]", lambda m, s: f"(*{arg}.vindex(&{m.group(1).strip()}))")
    # the key may already be a reference (`M[k]` with k: &K)
    t, n2 = _sub_masked(t, r"(?<![\w\.])" + re.escape(arg) + r"\[\s*(\w+)\s*\]", lambda m, s: f"(*{arg}.vindex({m.group(1)}))")
    n += n2
    if n:
        applied.append(f"R8frozenindex({arg})x{n}")
    return t


def rule_R14q(text, applied, arg=None):
    """`CALL(..)?` -> `(match CALL(..) { Ok(v_) => v_, Err(e_) => return Err(From::from(e_)) })`: the std desugaring of
    `?` on a Result (Verus does not connect `?` with the error conversion's specification).  With arg `same` the
    conversion is omitted (`return Err(e_)`): for identical error types `From::from` is std's reflexive
    `impl<T> From<T> for T`, the identity; if the types differ the result no longer type-checks => undecided."""
    cnt = 0
    while True:
        m_text = mask(text)
        m = re.search(r"\)\s*\?", m_text)
        if not m:
            # `IDENT?` on a plain local
            mi_ = re.search(r"(?<![\w\.:])([a-z_]\w*)\s*\?(?!\w)", m_text)
            if not mi_:
                break
            conv = "e_" if arg == "same" else "From::from(e_)"
            new = f"(match {mi_.group(1)} {{ Ok(v_) => v_, Err(e_) => return Err({conv}) }})"
            text = text[:mi_.start()] + _keep_newlines(text[mi_.start():mi_.end()], new) + text[mi_.end():]
            cnt += 1
            continue
        q = m.end() - 1
        start = _receiver_start(m_text, q)
        expr = text[start:m.start() + 1]
        conv = "e_" if arg == "same" else "From::from(e_)"
        new = f"(match {expr} {{ Ok(v_) => v_, Err(e_) => return Err({conv}) }})"
        text = text[:start] + _keep_newlines(text[start:q + 1], new) + text[q + 1:]
        cnt += 1
    if cnt:
        applied.append(f"R14qx{cnt}" + (f"({arg})" if arg else ""))
    return text


def rule_R10(text, applied, arg=None):
    """FnMut callback parameter -> logging sink object: `mut NAME: impl FnMut(..) [-> R]` becomes
    `NAME: &mut TYPE`, calls `NAME(args)` become `NAME.call(args)`.  arg = NAME=TYPE."""
    name, ty = arg.split("=")
    m_text = mask(text)
    m = re.search(r"\bmut\s+" + re.escape(name) + r"\s*:\s*impl\s+FnMut\s*\(", m_text)
    if not m:
        raise ExtractError(f"R10: parameter `mut {name}: impl FnMut(..)` not found (lost anchor)")
    cp = match_close(m_text, m.end() - 1)
    k = cp + 1
    rm = re.match(r"\s*->\s*[\w<>:]+", m_text[k:])
    if rm:
        k += rm.end()
    text = text[:m.start()] + _keep_newlines(text[m.start():k], f"{name}: &mut {ty}") + text[k:]
    t, n = _sub_masked(text, r"(?<![\w\.])" + re.escape(name) + r"\s*\((?!\s*:)", lambda mm, s_: f"{name}.call(")
    applied.append(f"R10({name}->{ty})x{n}")
    return t


def rule_R11(text, applied, arg=None):
    """monomorphisation: type parameter P -> concrete type T inside the item.  arg = P=T."""
    pname, ty = arg.split("=")
    t, n = _sub_masked(text, r"\b" + re.escape(pname) + r"\b", lambda m, s_: ty)
    applied.append(f"R11({pname}={ty})x{n}")
    return t


def _receiver_start(m_text, dot_pos):
    """Start offset of the method-chain receiver that ends just before the `.` at dot_pos."""
    p = dot_pos
    while True:
        q = p - 1
        while q >= 0 and m_text[q] in " \t\n":
            q -= 1
        if q < 0:
            return p
        if m_text[q] in ")]":
            q = match_open_idx(m_text, q)
            # a call: identifier before the paren
            r = q - 1
            while r >= 0 and (m_text[r].isalnum() or m_text[r] == "_"):
                r -= 1
            p = r + 1
        elif m_text[q].isalnum() or m_text[q] == "_":
            r = q
            while r >= 0 and (m_text[r].isalnum() or m_text[r] == "_"):
                r -= 1
            p = r + 1
        else:
            return p
        # continue through `.` or `::`
        r = p - 1
        while r >= 0 and m_text[r] in " \t\n":
            r -= 1
        if r >= 0 and m_text[r] == ".":
            p = r
            continue
        if r >= 1 and m_text[r - 1:r + 1] == "::":
            p = r - 1
            continue
        return p


def match_open_idx(m_text, close_idx):
    from rustlex import match_open
    return match_open(m_text, close_idx)


def rule_R14(text, applied):
    """Option combinators applied to a closure literal are desugared into `match` (their std definition):
    `E.map_or(D, |x| B)` -> `match E { Some(x) => B, None => D }`, `E.and_then(|x| B)` ->
    `match E { Some(x) => B, None => None }`, `E.map(|x| B)` -> `match E { Some(x) => Some(B), None => None }`."""
    cnt = 0
    while True:
        m_text = mask(text)
        m = re.search(r"\.\s*(map_or|and_then|map)\s*\(", m_text)
        if not m:
            break
        op = m.end() - 1
        cp = match_close(m_text, op)
        inner, inner_m = text[op + 1:cp], m_text[op + 1:cp]
        parts = split_top_level(inner_m, inner)
        while len(parts) > 1 and not parts[-1].strip():
            parts.pop()          # trailing comma
        which = m.group(1)
        clos = parts[-1].strip()
        cm = re.match(r"\|\s*([^|]+?)\s*\|\s*(.*)$", clos, re.S)
        if not cm or (which == "map_or" and len(parts) != 2) or (which != "map_or" and len(parts) != 1):
            raise ExtractError(f"R14: `{which}` argument is not a closure literal (outside the subset)")
        pat, body = " ".join(cm.group(1).split()), cm.group(2).strip()
        if re.fullmatch(r"&\s*\w+", pat):
            pat = pat.replace(" ", "")
        start = _receiver_start(m_text, m.start())
        recv = text[start:m.start()]
        if which == "map_or":
            new = f"match {recv} {{ Some({pat}) => {body}, None => {parts[0].strip()} }}"
        elif which == "and_then":
            new = f"match {recv} {{ Some({pat}) => {body}, None => None }}"
        else:
            new = f"match {recv} {{ Some({pat}) => Some({body}), None => None }}"
        text = text[:start] + _keep_newlines(text[start:cp + 1], new) + text[cp + 1:]
        cnt += 1
    if cnt:
        applied.append(f"R14x{cnt}")
    return text


def rule_R2set(text, applied):
    """`*E.get_unchecked_mut(I) = V` -> `E[I] = V` (in-bounds becomes an obligation)."""
    cnt = 0
    while True:
        m_text = mask(text)
        m = re.search(r"\*\s*((?:\w+\s*\.\s*)*\w+)\s*\.\s*get_unchecked_mut\s*\(", m_text)
        if not m:
            break
        op = m.end() - 1
        cp = match_close(m_text, op)
        if not re.match(r"\s*=(?!=)", m_text[cp + 1:]):
            raise ExtractError("R2set: `*E.get_unchecked_mut(I)` not used as an assignment target")
        recv = "".join(text[m.start(1):m.end(1)].split())
        new = f"{recv}[{text[op + 1:cp].strip()}]"
        text = text[:m.start()] + _keep_newlines(text[m.start():cp + 1], new) + text[cp + 1:]
        cnt += 1
    if cnt:
        applied.append(f"R2setx{cnt}")
    return text


def rule_R8first(text, applied):
    """`let &X = E[A..].iter().next()?;` -> `let X = match vfirst_from(&E, A) { Some(x_) => *x_, None => return None };`
    (vfirst_from is a verified helper whose precondition A <= E.len() is the panic condition of the slice)."""
    m_text = mask(text)
    m = re.search(r"\blet\s*&\s*(\w+)\s*=\s*([\w\.]+)\[([^\]]+?)\.\.\]\s*\.\s*iter\(\)\s*\.\s*next\(\)\s*\?\s*;", m_text)
    if not m:
        raise ExtractError("R8first: pattern not found (lost anchor)")
    new = f"let {m.group(1)} = match vfirst_from(&{m.group(2)}, {text[m.start(3):m.end(3)].strip()}) {{ Some(x_) => *x_, None => return None }};"
    text = text[:m.start()] + _keep_newlines(text[m.start():m.end()], new) + text[m.end():]
    applied.append("R8firstx1")
    return text


def rule_R9(text, applied):
    """sync projection: `async fn` -> `fn`, `E.await` -> `E` (contracts then hold for non-yielding providers only)."""
    t, a = _sub_masked(text, r"\basync\s+(?=fn\b)", lambda m, s: "")
    t, b = _sub_masked(t, r"\s*\.\s*await\b", lambda m, s: "")
    if a + b:
        applied.append(f"R9x{a + b}")
    return t


def rule_R8position(text, applied):
    """`X.iter().position(|&s| s == Y)` -> `vposition(&X, Y)` (verified helper: first index holding Y)."""
    t, n = _sub_masked(text, r"([\w\.]+?)\s*\.\s*iter\(\)\s*\.\s*position\(\s*\|\s*&\s*(\w+)\s*\|\s*\2\s*==\s*([\w\.]+)\s*\)",
                       lambda m, s: f"vposition(&{m.group(1)}, {m.group(3)})")
    if n:
        applied.append(f"R8positionx{n}")
    return t


def rule_R8rotate(text, applied):
    """`X[A..=B].rotate_right(K)` / `X[A..B].rotate_right(K)` / rotate_left -> `vrotate_right(&mut X, A, B(+1), K)`
    (trusted helper with the documented behaviour of slice::rotate_* on the sub-slice, including its panics)."""
    def rep(m, s):
        lo = m.group(2).strip() or "0"
        hi = m.group(4).strip()
        if not hi:
            hi = f"{m.group(1)}.len()"
        elif m.group(3) == "..=":
            hi = f"({hi}) + 1"
        return f"vrotate_{m.group(5)}(&mut {m.group(1)}, {lo}, {hi}, {m.group(6).strip()})"
    t, n = _sub_masked(text, r"([\w\.]+?)\[([^\]\.]*?)(\.\.=?)([^\]]*?)\]\s*\.\s*rotate_(right|left)\(([^\)]+)\)", rep)
    if n:
        applied.append(f"R8rotatex{n}")
    return t


def rule_R12refcell(text, applied):
    """cell erasure for RefCell: `E.borrow_mut()` -> `&mut E`, `E.borrow()` -> `&E` (the wrapper then takes
    `&mut self`; sequential behaviour identical, run-time borrow panics are not covered)."""
    t, a = _sub_masked(text, r"((?:\w+\s*\.\s*)*\w+)\s*\.\s*borrow_mut\(\)", lambda m, s: "&mut " + "".join(m.group(1).split()))
    t, b = _sub_masked(t, r"((?:\w+\s*\.\s*)*\w+)\s*\.\s*borrow\(\)", lambda m, s: "&" + "".join(m.group(1).split()))
    if a + b:
        applied.append(f"R12refcellx{a + b}")
    return t


def rule_R8slice(text, applied):
    """`&X[A..B]` -> `vslice(&X, A, B)` (helper over vstd's slice_subrange; precondition = slice panic condition)."""
    t, n = _sub_masked(text, r"&\s*([\w\.]+?)\[([^\]\.]+?)\.\.([^\]=]+?)\]", lambda m, s: f"vslice(&{m.group(1)}, {m.group(2).strip()}, {m.group(3).strip()})")
    if n:
        applied.append(f"R8slicex{n}")
    return t


def rule_R7iter(text, applied):
    """`for X in E.iter() {` -> index `while` loop (`let X = &E[i_]`), same lines."""
    cnt = 0
    while True:
        m_text = mask(text)
        m = re.search(r"\bfor\s+(\w+)\s+in\s+(?:&\s*([\w\.]+?)|([\w\.]+?)\s*\.\s*iter\(\))\s*\{", m_text)
        if not m:
            break
        x_name, coll = m.group(1), "".join((m.group(2) or m.group(3)).split())
        ob = m.end() - 1
        cb = match_close(m_text, ob)
        if re.search(r"\bcontinue\b|\bbreak\s*'", m_text[ob + 1:cb]):
            raise ExtractError("R7iter: loop body contains continue / labelled break")
        iv = f"i{cnt}_"
        head = f"let mut {iv}: usize = 0; while {iv} < {coll}.len() {{ let {x_name} = &{coll}[{iv}];"
        tail = f"; {iv} += 1; }}"
        text = text[:m.start()] + _keep_newlines(text[m.start():ob + 1], head) + text[ob + 1:cb] + tail + text[cb + 1:]
        cnt += 1
    if cnt:
        applied.append(f"R7iterx{cnt}")
    return text


def rule_R7pairs(text, applied):
    """`for (A, B) in E.iter() {` over a Vec/slice of pairs -> increment-first index loop (continue-safe):
    `let mut pN_: usize = 0; while pN_ < E.len() { let (A, B) = (&E[pN_].0, &E[pN_].1); pN_ += 1;` -- the std
    definition of iterating a slice of pairs by reference with a destructuring pattern."""
    cnt = 0
    while True:
        m_text = mask(text)
        m = re.search(r"\bfor\s*\(\s*(\w+)\s*,\s*(\w+)\s*\)\s+in\s+([\w\.]+?)\s*\.\s*iter\(\)\s*\{", m_text)
        if not m:
            break
        a_, b_, coll = m.group(1), m.group(2), "".join(m.group(3).split())
        iv = f"p{cnt}_"
        head = f"let mut {iv}: usize = 0; while {iv} < {coll}.len() {{ let ({a_}, {b_}) = (&{coll}[{iv}].0, &{coll}[{iv}].1); {iv} += 1;"
        text = text[:m.start()] + _keep_newlines(text[m.start():m.end()], head) + text[m.end():]
        cnt += 1
    if cnt:
        applied.append(f"R7pairsx{cnt}")
    return text


def rule_R7indexmap(text, applied):
    """`for (&K, V) in E.iter() {` over an indexmap::IndexMap -> increment-first index loop over its entries in
    insertion order (IndexMap::iter is documented to yield the entries in index order, get_index(i) the i-th):
    `let mut mN_: usize = 0; while mN_ < E.len() { let (kN_, V) = E.get_index(mN_).unwrap(); let K = *kN_; mN_ += 1;`"""
    cnt = 0
    while True:
        m_text = mask(text)
        m = re.search(r"\bfor\s*\(\s*&\s*(\w+)\s*,\s*(\w+)\s*\)\s+in\s+([\w\.]+?)\s*\.\s*iter\(\)\s*\{", m_text)
        if not m:
            break
        k_, v_, coll = m.group(1), m.group(2), "".join(m.group(3).split())
        iv = f"m{cnt}_"
        head = (f"let mut {iv}: usize = 0; while {iv} < {coll}.len() {{ let (k{cnt}_, {v_}) = {coll}.get_index({iv}).unwrap(); "
                f"let {k_} = *k{cnt}_; {iv} += 1;")
        text = text[:m.start()] + _keep_newlines(text[m.start():m.end()], head) + text[m.end():]
        cnt += 1
    if cnt:
        applied.append(f"R7indexmapx{cnt}")
    return text


def rule_R28(text, applied):
    """`X.iter().map(|&P| BODY).collect::<Vec<_>>()` (innermost first, so nested map/collect chains become nested
    loops) -> the loop that is the std definition of map + collect into a Vec:
      { let mut moN_ = Vec::new(); let mut miN_: usize = 0;
        while miN_ < X.len() { let P = X[miN_]; miN_ += 1; let meN_ = BODY; moN_.push(meN_); }
        moN_ }
    The closure body is verbatim; a `return` inside it is outside the subset."""
    cnt = 0
    while True:
        m_text = mask(text)
        ms = list(re.finditer(r"([\w\.]+?)\s*\.\s*iter\(\)\s*\.\s*map\s*\(\s*\|\s*&\s*(\w+)\s*\|", m_text))
        if not ms:
            break
        m = ms[-1]          # the textually last one is innermost (or independent)
        x, pvar = "".join(m.group(1).split()), m.group(2)
        op = m_text.index("(", m_text.index("map", m.end(1)))
        cp = match_close(m_text, op)
        body = text[m.end():cp].strip().rstrip(",").strip()
        if re.search(r"\breturn\b", mask(body)):
            raise ExtractError("R28: `return` in a map closure (outside the subset)")
        cm = re.match(r"\s*\.\s*collect\s*::\s*<\s*Vec\s*<\s*_\s*>\s*>\s*\(\s*\)", m_text[cp + 1:])
        if not cm:
            raise ExtractError("R28: map(..) is not followed by collect::<Vec<_>>() (outside the subset)")
        end = cp + 1 + cm.end()
        n = cnt
        code = (f"{{ let mut mo{n}_ = Vec::new(); let mut mi{n}_: usize = 0; while mi{n}_ < {x}.len() {{ let {pvar} = {x}[mi{n}_]; mi{n}_ += 1; "
                f"let me{n}_ = ")
        tail = f"; mo{n}_.push(me{n}_); }} mo{n}_ }}"
        # keep the body's own lines in place
        b_start = m.end() + (len(text[m.end():cp]) - len(text[m.end():cp].lstrip()))
        b_end = b_start + len(body)
        text = text[:m.start()] + _keep_newlines(text[m.start():b_start], code) + body + _keep_newlines(text[b_end:end], tail) + text[end:]
        cnt += 1
    if cnt:
        applied.append(f"R28x{cnt}")
    return text


def rule_R27(text, applied):
    """`for (A, B) in X.iter().zip(Y.iter()).flat_map(|(&P, Q)| { STMTS; P.iter().copied().zip(Q.iter().copied()) }) {`
    -> the nested index loops that are the std definition of zip + flat_map (the closure runs once per outer
    pair, lazily, before that pair's inner items; each zip stops at the shorter side):
      let mut zoN_: usize = 0; while zoN_ < X.len() && zoN_ < Y.len() { let P = X[zoN_]; let Q = &Y[zoN_]; zoN_ += 1; STMTS;
        let mut ziN_: usize = 0; while ziN_ < P.len() && ziN_ < Q.len() { let (A, B) = (P[ziN_], Q[ziN_]); ziN_ += 1; BODY } }
    `break` in BODY (it would leave both loops) is outside the subset; `continue` keeps its meaning."""
    cnt = 0
    while True:
        m_text = mask(text)
        m = re.search(r"\bfor\s*\(\s*(\w+)\s*,\s*(\w+)\s*\)\s*in\s+([\w\.]+?)\s*\.\s*iter\(\)\s*\.\s*zip\(\s*([\w\.]+?)\s*\.\s*iter\(\)\s*\)\s*\.\s*flat_map\s*\(\s*\|\s*\(\s*&\s*(\w+)\s*,\s*(\w+)\s*\)\s*\|\s*\{", m_text)
        if not m:
            break
        a, b, x, y, pv, qv = m.group(1), m.group(2), "".join(m.group(3).split()), "".join(m.group(4).split()), m.group(5), m.group(6)
        cob = m.end() - 1
        ccb = match_close(m_text, cob)
        cbody = text[cob + 1:ccb]
        mcb = mask(cbody)
        # split statements / tail expression of the closure
        d_, last = 0, -1
        for q, ch in enumerate(mcb):
            if ch in "([{":
                d_ += 1
            elif ch in ")]}":
                d_ -= 1
            elif ch == ";" and d_ == 0:
                last = q
        stm, tail_e = cbody[:last + 1], cbody[last + 1:]
        if not re.fullmatch(rf"\s*{pv}\s*\.\s*iter\(\)\s*\.\s*copied\(\)\s*\.\s*zip\(\s*{qv}\s*\.\s*iter\(\)\s*\.\s*copied\(\)\s*\)\s*", mask(tail_e)):
            raise ExtractError("R27: the flat_map closure does not end in `P.iter().copied().zip(Q.iter().copied())` (outside the subset)")
        if re.search(r"\breturn\b", mask(stm)):
            raise ExtractError("R27: `return` in the flat_map closure (outside the subset)")
        # after the closure: `)` then the loop body brace
        k = ccb + 1
        mm = re.match(r"\s*\)\s*\{", m_text[k:])
        if not mm:
            raise ExtractError("R27: unexpected text after the flat_map closure")
        lob = k + mm.end() - 1
        lcb = match_close(m_text, lob)
        if re.search(r"\bbreak\b", m_text[lob:lcb]):
            raise ExtractError("R27: `break` in the loop body (outside the subset)")
        n = cnt
        head1 = (f"let mut zo{n}_: usize = 0; while zo{n}_ < {x}.len() && zo{n}_ < {y}.len() {{ let {pv} = {x}[zo{n}_]; let {qv} = &{y}[zo{n}_]; zo{n}_ += 1; ")
        head2 = (f" let mut zi{n}_: usize = 0; while zi{n}_ < {pv}.len() && zi{n}_ < {qv}.len() {{ let ({a}, {b}) = ({pv}[zi{n}_], {qv}[zi{n}_]); zi{n}_ += 1;")
        text = (text[:m.start()] + _keep_newlines(text[m.start():cob + 1], head1) + stm + _keep_newlines(text[cob + 1 + len(stm):lob + 1], head2)
                + text[lob + 1:lcb] + "} }" + text[lcb + 1:])
        cnt += 1
    if cnt:
        applied.append(f"R27x{cnt}")
    return text


def rule_R8all(text, applied):
    """`X.iter().all(|P| EXPR)` -> the loop that is the std definition of Iterator::all (short-circuit at the first
    element for which EXPR is false): { let mut okN_ = true; let mut aiN_: usize = 0; while aiN_ < X.len() { let P = &X[aiN_];
    aiN_ += 1; if !(EXPR) { okN_ = false; break; } } okN_ }"""
    cnt = 0
    while True:
        m_text = mask(text)
        m = re.search(r"([\w\.]+?)\s*\.\s*iter\(\)\s*\.\s*all\s*\(\s*\|\s*(\w+)\s*\|", m_text)
        if not m:
            break
        x, pv = "".join(m.group(1).split()), m.group(2)
        op = m_text.index("(", m_text.index("all", m.end(1)))
        cp = match_close(m_text, op)
        body = text[m.end():cp].strip()
        if re.search(r"\breturn\b|\|", mask(body)):
            raise ExtractError("R8all: closure body outside the subset")
        n = cnt
        code = (f"{{ let mut ok{n}_ = true; let mut ai{n}_: usize = 0; while ai{n}_ < {x}.len() {{ let {pv} = &{x}[ai{n}_]; ai{n}_ += 1; "
                f"if !({body}) {{ ok{n}_ = false; break; }} }} ok{n}_ }}")
        text = text[:m.start()] + _keep_newlines(text[m.start():cp + 1], code) + text[cp + 1:]
        cnt += 1
    if cnt:
        applied.append(f"R8allx{cnt}")
    return text


def rule_R16od(text, applied):
    """`let V = M.entry(K).or_default();` (std HashMap entry API; V: &mut T is used until the end of the enclosing
    block) -> the value is taken out of the map (or created by Default), used as an owned local, and put back at the
    end of the enclosing block: `let mut V = ventry_take(&mut M, K);` ... `ventry_put(&mut M, K, V);`  K must be a
    Copy path/identifier.  Net effect on the map = the documented effect of entry().or_default() + in-place mutation."""
    cnt = 0
    while True:
        m_text = mask(text)
        m = re.search(r"\blet\s+(\w+)\s*=\s*([\w\.\s]+?)\s*\.\s*entry\(\s*(\w+)\s*\)\s*\.\s*or_default\(\)\s*;", m_text)
        if not m:
            break
        v, mp, k = m.group(1), "".join(m.group(2).split()), m.group(3)
        # end of the enclosing block
        depth, q = 0, m.end()
        while q < len(m_text):
            ch = m_text[q]
            if ch in "([{":
                depth += 1
            elif ch in ")]}":
                if depth == 0:
                    break
                depth -= 1
            q += 1
        if q >= len(m_text) or m_text[q] != "}":
            raise ExtractError("R16od: enclosing block not found")
        text = (text[:m.start()] + _keep_newlines(text[m.start():m.end()], f"let mut {v} = ventry_take(&mut {mp}, {k});") + text[m.end():q]
                + f"ventry_put(&mut {mp}, {k}, {v}); " + text[q:])
        cnt += 1
    if cnt:
        applied.append(f"R16odx{cnt}")
    return text


def rule_R10site(text, applied, arg=None):
    """call site of AtMostOnceTracker::add: `T.add(V, |a, b, positive| { B1 }, || { B2 })` -> `vamo_add(&mut T, V,
    &mut self.state.F1, &mut self.state.F2, ..)` where F1, F2, .. are the places `self.state.F` that the two closure
    bodies mention (what the closures capture by unique borrow; sorted, deduplicated).  The closure bodies are NOT
    part of the rewritten text: B1 is verified as a block of its own, B2 is a call of a verified function, and `add`
    itself is verified in unit amo against callback objects; vamo_add's contract is their ASSUMED composition."""
    m_text = mask(text)
    m = re.search(r"(\w+)\s*\.\s*add\s*\(", m_text)
    if not m:
        raise ExtractError("R10site: `.add(` call not found (lost anchor)")
    op = m.end() - 1
    cp = match_close(m_text, op)
    inner = text[op + 1:cp]
    mi_ = mask(inner)
    am = re.match(r"\s*([\w\.]+)\s*,\s*\|([^|]*)\|\s*\{", mi_)
    if not am:
        raise ExtractError("R10site: `.add(V, closure, closure)` expected (outside the subset)")
    c1o = am.end() - 1
    c1c = match_close(mi_, c1o)
    bm = re.match(r"\s*,\s*\|\s*\|\s*\{", mi_[c1c + 1:])
    if not bm:
        raise ExtractError("R10site: `.add(V, closure, closure)` expected (outside the subset)")
    c2o = c1c + 1 + bm.end() - 1
    c2c = match_close(mi_, c2o)
    if mi_[c2c + 1:].strip().strip(",").strip():
        raise ExtractError("R10site: `.add(V, closure, closure)` expected (outside the subset)")
    parts = [am.group(1), inner[c1o:c1c + 1], inner[c2o:c2c + 1]]
    places = sorted(set(re.findall(r"\bself\s*\.\s*state\s*\.\s*(\w+)", mask(parts[1]) + mask(parts[2]))))
    others = set(re.findall(r"\bself\s*\.\s*(\w+)", mask(parts[1]) + mask(parts[2]))) - {"state"}
    if others:
        raise ExtractError(f"R10site: closures capture self.{sorted(others)[0]} (outside the subset)")
    call = f"vamo_add(&mut {m.group(1)}, {parts[0].strip()}" + "".join(f", &mut self.state.{f}" for f in places) + ")"
    text = text[:m.start()] + _keep_newlines(text[m.start():cp + 1], call) + text[cp + 1:]
    applied.append(f"R10site({','.join(places)})")
    return text


def rule_R12frozen(text, applied, arg=None):
    """`OWNER.FIELD.insert(k, v)` on an elsa::FrozenMap that is reached through a unique borrow of its owner ->
    `OWNER.FIELD.vinsert_mut(k, v)` (cell erasure as in R12: same sequential effect, stated as a contract on `&mut`)."""
    t, n = _sub_masked(text, r"\.\s*" + re.escape(arg) + r"\s*\.\s*insert\s*\(", lambda m, s_: _keep_newlines(s_[m.start():m.end()], f".{arg}.vinsert_mut("))
    if not n:
        raise ExtractError(f"R12frozen: `.{arg}.insert(` not found (lost anchor)")
    applied.append(f"R12frozen({arg})x{n}")
    return t


def rule_R12frozencopy(text, applied, arg=None):
    """`OWNER.FIELD.insert_copy(k, v)` on a FrozenCopyMap reached through a unique borrow of its owner (arg: FIELD) ->
    `OWNER.FIELD.vinsert_copy_mut(k, v)` (cell erasure as in R12: same sequential effect, stated as a contract on `&mut`; the
    real insert_copy is verified under the same erasure in unit pool)."""
    t, n = _sub_masked(text, r"\.\s*" + re.escape(arg) + r"\s*\.\s*insert_copy\s*\(", lambda m, s_: _keep_newlines(s_[m.start():m.end()], f".{arg}.vinsert_copy_mut("))
    if not n:
        raise ExtractError(f"R12frozencopy: `.{arg}.insert_copy(` not found (lost anchor)")
    applied.append(f"R12frozencopy({arg})x{n}")
    return t


def rule_R45(text, applied):
    """`X.to_vec()` on a slice / Vec of Copy ids -> `vcopied(X)` (the unit's verified copy loop: an equal vector; `to_vec`
    clones element by element and Clone of a Copy type is the copy).  Applies zero or more times."""
    t, n = _sub_masked(text, r"((?:\w+\s*\.\s*)*\w+)\s*\.\s*to_vec\(\)", lambda m, s_: f"vcopied({''.join(m.group(1).split())})")
    if n:
        applied.append(f"R45x{n}")
    return t


def rule_R7own(text, applied):
    """`for X in E {` where E is a path to an owned Vec of Copy elements (consumed by the loop) -> increment-first
    index loop over the moved vector: `let ownN_ = E; let mut oN_: usize = 0; while oN_ < ownN_.len() { let X = ownN_[oN_]; oN_ += 1;`"""
    cnt = 0
    while True:
        m_text = mask(text)
        m = re.search(r"\bfor\s+(\w+)\s+in\s+((?:\w+\s*\.\s*)*\w+)\s*\{", m_text)
        if not m:
            break
        x, e = m.group(1), "".join(m.group(2).split())
        head = f"let own{cnt}_ = {e}; let mut o{cnt}_: usize = 0; while o{cnt}_ < own{cnt}_.len() {{ let {x} = own{cnt}_[o{cnt}_]; o{cnt}_ += 1;"
        text = text[:m.start()] + _keep_newlines(text[m.start():m.end()], head) + text[m.end():]
        cnt += 1
    if cnt:
        applied.append(f"R7ownx{cnt}")
    return text


def rule_R29(text, applied):
    """`while let PAT = E { BODY }` -> its definition `loop { let wlN_ = E; match wlN_ { PAT => { BODY } _ => { break; } } }`
    (so that a proof step can be placed between the evaluation of E and the test)."""
    cnt = 0
    while True:
        m_text = mask(text)
        m = re.search(r"\bwhile\s+let\s+((?:\w+::)*\w+\((?:[^()]|\([^()]*\))*\))\s*=\s*", m_text)
        if not m:
            break
        ob = next_body_brace(m_text, m.end())
        if ob < 0:
            raise ExtractError("R29: no loop body")
        cb = match_close(m_text, ob)
        e = text[m.end():ob].strip()
        pat = text[m.start(1):m.end(1)]
        # `while let PAT = E { B }` is `loop { match E { PAT => { B } _ => break } }` (Rust reference)
        head = f"loop {{ let wl{cnt}_ = {e}; match wl{cnt}_ {{ {pat} => {{"
        text = text[:m.start()] + _keep_newlines(text[m.start():ob + 1], head) + text[ob + 1:cb] + "} _ => { break; } } }" + text[cb + 1:]
        cnt += 1
    if cnt:
        applied.append(f"R29x{cnt}")
    return text


def rule_R31(text, applied):
    """slice patterns in match arms over arrays of Copy elements (Verus has no slice patterns):
    `PATH([a, b]) => EXPR,` -> `PATH(spN_) => { let a = spN_[0]; let b = spN_[1]; EXPR },` -- destructuring a fixed-size
    array of Copy elements is element-wise copying by index."""
    cnt = 0
    while True:
        m_text = mask(text)
        m = re.search(r"((?:\w+::)*\w+)\(\s*\[\s*(\w+(?:\s*,\s*\w+)*)\s*\]\s*\)\s*=>\s*", m_text)
        if not m:
            break
        names = [x.strip() for x in m.group(2).split(",")]
        # extent of the arm's expression: up to the top-level comma (or a block)
        k = m.end()
        if m_text[k] == "{":
            e = match_close(m_text, k) + 1
        else:
            d_ = 0
            e = k
            while e < len(m_text):
                ch = m_text[e]
                if ch in "([{":
                    d_ += 1
                elif ch in ")]}":
                    if d_ == 0:
                        break
                    d_ -= 1
                elif ch == "," and d_ == 0:
                    break
                e += 1
        expr = text[k:e]
        sp = f"sp{cnt}_"
        lets = " ".join(f"let {n_} = {sp}[{i_}];" for i_, n_ in enumerate(names))
        new = f"{m.group(1)}({sp}) => {{ {lets} {expr} }}"
        text = text[:m.start()] + _keep_newlines(text[m.start():e], new) + text[e:]
        cnt += 1
    if cnt:
        applied.append(f"R31x{cnt}")
    return text


def rule_R30(text, applied):
    """`ITER.fold(INIT, |mut ACC, X| { STMTS; ACC })` where ITER is a parameter that was materialised as a Vec (its
    items in order) -> the loop that is the std definition of Iterator::fold:
      { let mut ACC = INIT; let mut fiN_: usize = 0; while fiN_ < ITER.len() { let X = ITER[fiN_]; fiN_ += 1; STMTS } ACC }"""
    cnt = 0
    while True:
        m_text = mask(text)
        m = re.search(r"\b(\w+)\s*\.\s*fold\s*\(", m_text)
        if not m:
            break
        op = m.end() - 1
        cp = match_close(m_text, op)
        inner_m = m_text[op + 1:cp]
        cm = re.search(r",\s*\|\s*mut\s+(\w+)\s*,\s*(\w+)\s*\|\s*\{", inner_m)
        if not cm:
            raise ExtractError("R30: fold(INIT, |mut acc, x| { .. }) expected (outside the subset)")
        init = text[op + 1:op + 1 + cm.start()].strip()
        acc, x = cm.group(1), cm.group(2)
        cob = op + 1 + cm.end() - 1
        ccb = match_close(m_text, cob)
        body = text[cob + 1:ccb]
        tm_ = re.search(r"(?:^|[;}\s])(" + re.escape(acc) + r")\s*$", mask(body))
        if not tm_:
            raise ExtractError("R30: the fold closure must end in its accumulator (outside the subset)")
        stm = body[:tm_.start(1)]
        if re.search(r"\breturn\b", mask(stm)):
            raise ExtractError("R30: the fold closure must not return early (outside the subset)")
        it = m.group(1)
        n = cnt
        head = f"{{ let mut {acc} = {init}; let mut fi{n}_: usize = 0; while fi{n}_ < {it}.len() {{ let {x} = {it}[fi{n}_]; fi{n}_ += 1;"
        text = text[:m.start()] + _keep_newlines(text[m.start():cob + 1], head) + stm + _keep_newlines(text[cob + 1 + len(stm):cp + 1], f"}} {acc} }}") + text[cp + 1:]
        cnt += 1
    if cnt:
        applied.append(f"R30x{cnt}")
    return text


def rule_R26it(text, applied):
    """a function that returns `E.iter().copied()` as `impl Iterator<Item = T> + '_`, where `E.iter()` is
    `E.as_slice().iter()` (SmallVec::iter, small_vec.rs), is verified as the sequence that iterator yields: return type
    `Vec<T>`, body `vcopied(E.as_slice())` (verified helper: the elements of the slice, in order)."""
    m_text = mask(text)
    rm = re.search(r"->\s*impl\s+Iterator\s*<\s*Item\s*=\s*(\w+)\s*>(?:\s*\+\s*'_)?", m_text)
    if not rm:
        raise ExtractError("R26it: return type is not `impl Iterator<Item = T> [+ '_]` (lost anchor)")
    text = text[:rm.start()] + _keep_newlines(text[rm.start():rm.end()], f"-> Vec<{rm.group(1)}>") + text[rm.end():]
    m_text = mask(text)
    m = re.search(r"\.\s*iter\(\)\s*\.\s*copied\(\)", m_text)
    if not m:
        raise ExtractError("R26it: `E.iter().copied()` not found (outside the subset)")
    start = _receiver_start(m_text, m.start())
    recv = " ".join(text[start:m.start()].split())
    text = text[:start] + _keep_newlines(text[start:m.end()], f"vcopied({recv}.as_slice())") + text[m.end():]
    applied.append("R26it")
    return text


def rule_R34(text, applied):
    """`for X in A.iter().flat_map(|R| R.version_sets(P)).chain(B.iter().copied()) {` -> the sequence is materialised by a
    verified helper (std definition of flat_map + chain over the trusted `vversion_sets`): `let chN_ = vdeps_version_sets(A, P, B);
    let mut ciN_: usize = 0; while ciN_ < chN_.len() { let X = chN_[ciN_]; ciN_ += 1;`"""
    cnt = 0
    while True:
        m_text = mask(text)
        m = re.search(r"\bfor\s+(\w+)\s+in\s+(\w+)\s*\.\s*iter\(\)\s*\.\s*flat_map\(\s*\|\s*(\w+)\s*\|\s*(\w+)\s*\.\s*version_sets\(([^()]*(?:\([^()]*\))*[^()]*)\)\s*\)\s*\.\s*chain\(\s*(\w+)\s*\.\s*iter\(\)\s*\.\s*copied\(\)\s*\)\s*\{", m_text)
        if not m:
            break
        if m.group(3) != m.group(4):
            raise ExtractError("R34: the flat_map closure is not |r| r.version_sets(..) (outside the subset)")
        x, a, p_, b = m.group(1), m.group(2), " ".join(text[m.start(5):m.end(5)].split()), m.group(6)
        head = f"let ch{cnt}_ = vdeps_version_sets({a}, {p_}, {b}); let mut ci{cnt}_: usize = 0; while ci{cnt}_ < ch{cnt}_.len() {{ let {x} = ch{cnt}_[ci{cnt}_]; ci{cnt}_ += 1;"
        text = text[:m.start()] + _keep_newlines(text[m.start():m.end()], head) + text[m.end():]
        cnt += 1
    if cnt:
        applied.append(f"R34x{cnt}")
    return text


def rule_R35(text, applied):
    """reference patterns in match arms over a `&Enum` scrutinee: `&PATH(a, b, _) => {` -> `PATH(a_r_, b_r_, _) => { let a = *a_r_;
    let b = *b_r_;` (matching `&T` against `&P(a, b)` binds copies of the fields; with default binding modes `P(a, b)` binds
    references, which are then dereferenced -- the fields must be Copy)."""
    cnt = 0
    while True:
        m_text = mask(text)
        m = re.search(r"&\s*((?:\w+::)+\w+)\(([^()]*)\)\s*=>\s*\{", m_text)
        if not m:
            break
        names = [x.strip() for x in m.group(2).split(",")]
        pats, lets = [], []
        for n_ in names:
            if n_ == "_" or n_ == ".." or not n_:
                pats.append(n_)
            elif re.fullmatch(r"\w+", n_):
                pats.append(n_ + "_r_")
                lets.append(f"let {n_} = *{n_}_r_;")
            else:
                raise ExtractError("R35: nested pattern in a reference pattern (outside the subset)")
        new = f"{m.group(1)}({', '.join(pats)}) => {{ " + " ".join(lets)
        text = text[:m.start()] + _keep_newlines(text[m.start():m.end()], new) + text[m.end():]
        cnt += 1
    if cnt:
        applied.append(f"R35x{cnt}")
    return text


def rule_R16oiw(text, applied):
    """`M.entry(K).or_insert_with(|| E)` on a map with Copy values -> a reference to the value that is looked up or, if
    absent, computed by E and inserted (documented semantics of the entry API; the closure runs only when the key is absent):
    `(&{ let k_ = K; match M.get(&k_) { Some(v_) => *v_, None => { let n_ = E; M.insert(k_, n_); n_ } } })`"""
    cnt = 0
    while True:
        m_text = mask(text)
        m = re.search(r"(\w+)\s*\.\s*entry\(([^()]*)\)\s*\.\s*or_insert_with\(\s*\|\|\s*", m_text)
        if not m:
            break
        op = m_text.index("(", m_text.index("or_insert_with", m.start()))
        cp = match_close(m_text, op)
        e = text[m.end():cp].strip()
        mp, k = m.group(1), " ".join(text[m.start(2):m.end(2)].split())
        new = f"(&{{ let k_ = {k}; match {mp}.get(&k_) {{ Some(v_) => *v_, None => {{ let n_ = {e}; {mp}.insert(k_, n_); n_ }} }} }})"
        text = text[:m.start()] + _keep_newlines(text[m.start():cp + 1], new) + text[cp + 1:]
        cnt += 1
    if cnt:
        applied.append(f"R16oiwx{cnt}")
    return text


def rule_R9blockon(text, applied):
    """sync projection: `S.async_runtime.block_on(E)` -> `E` (the value of a future that does not yield), and
    `E.unwrap_or_else(|_| BODY)` on a Result -> `match E { Ok(v_) => v_, Err(_) => BODY }` (its definition)."""
    cnt = 0
    while True:
        m_text = mask(text)
        m = re.search(r"(?:\w+\s*\.\s*)*async_runtime\s*\.\s*block_on\s*\(", m_text)
        if not m:
            break
        op = m.end() - 1
        cp = match_close(m_text, op)
        inner = text[op + 1:cp]
        text = text[:m.start()] + _keep_newlines(text[m.start():op + 1], "(") + inner + text[cp:]
        cnt += 1
    while True:
        m_text = mask(text)
        m = re.search(r"\.\s*unwrap_or_else\s*\(\s*\|\s*_\w*\s*\|\s*", m_text)
        if not m:
            break
        op = m_text.index("(", m_text.index("unwrap_or_else", m.start()))
        cp = match_close(m_text, op)
        body = text[m.end():cp].strip()
        start = _receiver_start(m_text, m.start())
        recv = text[start:m.start()]
        new = f"(match {recv} {{ Ok(v_) => v_, Err(_) => {body} }})"
        text = text[:start] + _keep_newlines(text[start:cp + 1], new) + text[cp + 1:]
        cnt += 1
    if cnt:
        applied.append(f"R9blockonx{cnt}")
    return text


def rule_R36(text, applied, arg=None):
    """(optional arg: the type of the result vector, for type inference) sync projection of `futures::future::try_join_all(SRC.map(|X| CALL)).await?` (apply BEFORE R9): the futures of a
    non-yielding provider complete in the order they are polled, so the result is the vector of the CALL results in the
    order SRC yields them, and the first Err leaves the function:
      { let srcN_ = vmaterialize(SRC); let mut tjN_ = Vec::new(); let mut tkN_: usize = 0;
        while tkN_ < srcN_.len() { let X = srcN_[tkN_]; tkN_ += 1; match CALL { Ok(v_) => { tjN_.push(v_); } Err(e_) => { return Err(e_); } } }
        tjN_ }
    SRC is materialised by `vmaterialize` (a trusted helper per source: the sequence the iterator yields)."""
    cnt = 0
    while True:
        m_text = mask(text)
        m = re.search(r"(?:futures::future::)?try_join_all\s*\(", m_text)
        if not m:
            break
        op = m.end() - 1
        cp = match_close(m_text, op)
        inner, inner_m = text[op + 1:cp], m_text[op + 1:cp]
        mm = re.search(r"\.\s*map\s*\(\s*\|\s*(\w+)\s*\|\s*", inner_m)
        if not mm:
            raise ExtractError("R36: try_join_all(SRC.map(|x| CALL)) expected (outside the subset)")
        src_e = " ".join(inner[:mm.start()].split())
        mop = inner_m.index("(", inner_m.index("map", mm.start()))
        mcp = match_close(inner_m, mop)
        call = inner[mm.end():mcp].strip().rstrip(",").strip()
        if call.startswith("{") and match_close(mask(call), 0) == len(call) - 1:
            call = call[1:-1].strip()
        if inner_m[mcp + 1:].strip().strip(","):
            raise ExtractError("R36: unexpected text after the map closure (outside the subset)")
        am = re.match(r"\s*\.\s*await\s*\?", m_text[cp + 1:])
        if not am:
            raise ExtractError("R36: try_join_all(..) is not followed by `.await?` (outside the subset)")
        end = cp + 1 + am.end()
        n = cnt
        code = (f"{{ let src{n}_ = vmaterialize({src_e}); let mut tj{n}_{(': ' + arg) if arg else ''} = Vec::new(); let mut tk{n}_: usize = 0; while tk{n}_ < src{n}_.len() "
                f"{{ let {mm.group(1)} = src{n}_[tk{n}_]; tk{n}_ += 1; match {' '.join(call.split())} {{ Ok(v_) => {{ tj{n}_.push(v_); }} Err(e_) => {{ return Err(e_); }} }} }} tj{n}_ }}")
        text = text[:m.start()] + _keep_newlines(text[m.start():end], code) + text[end:]
        cnt += 1
    if cnt:
        applied.append(f"R36x{cnt}")
    return text


def rule_R37(text, applied):
    """`E.into_iter().flatten().copied().collect()` on a Vec of slices -> `E.vflat()` (verified helper: the elements of the
    slices, slice by slice, in order -- the std definition of flatten + copied + collect)."""
    t, n = _sub_masked(text, r"\.\s*into_iter\(\)\s*\.\s*flatten\(\)\s*\.\s*copied\(\)\s*\.\s*collect\(\)", lambda m, s_: ".vflat()")
    if n:
        applied.append(f"R37x{n}")
    return t


def rule_R9enc(text, applied):
    """sync projection of an encoder run inside run_sat: `self.async_runtime.block_on(Encoder::new(&mut self.state,
    &self.cache, ROOT_DEPS).encode(IDS))` -> `self.vencode(ROOT_DEPS, IDS)` -- a stand-in method on the solver (the encoder
    borrows exactly the solver's state and cache; its own functions are under contract in unit enc)."""
    t, n = _sub_masked(text, r"self\s*\.\s*async_runtime\s*\.\s*block_on\(\s*Encoder::new\(\s*&mut\s+self\.state\s*,\s*&self\.cache\s*,\s*(\w+)\s*\)\s*\.\s*encode\(([^()]*(?:\[[^\]]*\])?[^()]*)\)\s*,?\s*\)",
                       lambda m, s_: f"self.vencode({m.group(1)}, {' '.join(s_[m.start(2):m.end(2)].split())})")
    if not n:
        raise ExtractError("R9enc: encoder run not found (lost anchor)")
    applied.append(f"R9encx{n}")
    return t


def rule_R38(text, applied):
    """`X.iter().copied().filter(|c| P).collect()` (the function's tail expression or a let initialiser) -> the loop that is
    the std definition of copied + filter + collect (the filter closure gets a reference to each item):
      { let mut foN_ = Vec::new(); let mut fiN_: usize = 0; while fiN_ < X.len() { let c = &X[fiN_]; fiN_ += 1; if P { foN_.push(*c); } } foN_ }"""
    cnt = 0
    while True:
        m_text = mask(text)
        m = re.search(r"((?:\w+\s*\.\s*)*\w+)\s*\.\s*iter\(\)\s*\.\s*copied\(\)\s*\.\s*filter\s*\(\s*\|\s*(&?)\s*(\w+)\s*\|\s*", m_text)
        if not m:
            break
        x, byval, c = "".join(m.group(1).split()), m.group(2) == "&", m.group(3)
        op = m_text.index("(", m_text.index("filter", m.end(1)))
        cp = match_close(m_text, op)
        pred = text[m.end():cp].strip().rstrip(",").strip()
        if re.search(r"\breturn\b|\|", mask(pred)):
            raise ExtractError("R38: filter predicate outside the subset")
        cm = re.match(r"\s*\.\s*collect(?:::<[^>]*>)?\(\)", m_text[cp + 1:])
        if not cm:
            raise ExtractError("R38: filter(..) is not followed by collect() (outside the subset)")
        end = cp + 1 + cm.end()
        n = cnt
        # `|c|` binds a reference to the (copied) item, `|&c|` the item itself
        bind, val = (f"let {c} = {x}[fi{n}_];", c) if byval else (f"let {c} = &{x}[fi{n}_];", "*" + c)
        code = (f"{{ let mut fo{n}_ = Vec::new(); let mut fi{n}_: usize = 0; while fi{n}_ < {x}.len() {{ {bind} fi{n}_ += 1; "
                f"if {' '.join(pred.split())} {{ fo{n}_.push({val}); }} }} fo{n}_ }}")
        text = text[:m.start()] + _keep_newlines(text[m.start():end], code) + text[end:]
        cnt += 1
    if cnt:
        applied.append(f"R38x{cnt}")
    return text


def rule_substws(text, applied, arg=None):
    """like `subst`, but the `~`-separated pieces of OLD may be separated by arbitrary whitespace (line breaks) in the
    source: OLD=>NEW with `~` between the pieces of OLD, `~` = one space in NEW; `%2C` = comma."""
    old, new = arg.replace("%2C", ",").split("=>")
    rx = r"\s*".join(re.escape(p_) for p_ in old.split("~") if p_)
    t, n = _sub_masked(text, rx, lambda m, s_: new.replace("~", " "))
    applied.append(f"substws({old}=>{new})x{n}")
    return t


def rule_R39(text, applied):
    """`for PAT in M.iter() {` over a resolvo Mapping (arg-free; selected by the `.iter()` receiver ending in a field that the
    unit knows to be a Mapping) -> the definition of a `for` loop over its iterator, so that the REAL MappingIter::next (under
    contract in unit map) is what advances it:
      let mut mitN_ = M.iter(); loop { let mnxN_ = mitN_.next(); match mnxN_ { Some(PAT) => { BODY } None => { break; } } }"""
    cnt = 0
    while True:
        m_text = mask(text)
        m = re.search(r"\bfor\s+(\([^()]*\)|\w+)\s+in\s+((?:\w+\s*\.\s*)*\w+)\s*\.\s*iter\(\)\s*\{", m_text)
        if not m:
            break
        ob = m.end() - 1
        cb = match_close(m_text, ob)
        pat, recv = text[m.start(1):m.end(1)], "".join(m.group(2).split())
        head = f"let mut mit{cnt}_ = {recv}.iter(); loop {{ let mnx{cnt}_ = mit{cnt}_.next(); match mnx{cnt}_ {{ Some({pat}) => {{"
        text = text[:m.start()] + _keep_newlines(text[m.start():ob + 1], head) + text[ob + 1:cb] + "} None => { break; } } }" + text[cb + 1:]
        cnt += 1
    if cnt:
        applied.append(f"R39x{cnt}")
    return text


def rule_R7intoenum(text, applied):
    """`for (I, X) in E.into_iter().enumerate() {` over an owned Vec of Copy elements -> index loop (`continue`-free body):
    `let ownN_ = E; let mut I: usize = 0; while I < ownN_.len() { let X = ownN_[I];` ... `I += 1; }`"""
    cnt = 0
    while True:
        m_text = mask(text)
        m = re.search(r"\bfor\s*\(\s*(\w+)\s*,\s*(\w+)\s*\)\s*in\s+(\w+)\s*\.\s*into_iter\(\)\s*\.\s*enumerate\(\)\s*\{", m_text)
        if not m:
            break
        i_, x_, e_ = m.group(1), m.group(2), m.group(3)
        ob = m.end() - 1
        cb = match_close(m_text, ob)
        if re.search(r"\bcontinue\b", m_text[ob:cb]):
            raise ExtractError("R7intoenum: loop body uses continue (outside the subset)")
        head = f"let own{cnt}_ = {e_}; let mut {i_}: usize = 0; while {i_} < own{cnt}_.len() {{ let {x_} = own{cnt}_[{i_}];"
        text = text[:m.start()] + _keep_newlines(text[m.start():m.end()], head) + text[m.end():cb] + f"{i_} += 1; " + text[cb:]
        cnt += 1
    if cnt:
        applied.append(f"R7intoenumx{cnt}")
    return text


def rule_R40(text, applied):
    """`&X[0..0]` (an empty prefix slice; Verus has no range slicing) -> `vempty_prefix(&X)` (helper: a slice of length 0), and
    `S.extend(Y.iter().copied())` on a hash set -> `S.vextend(Y)` (verified helper method: S afterwards = S before plus the
    elements of Y)."""
    t, n = _sub_masked(text, r"&\s*((?:\w+\s*\.\s*)*\w+)\s*\[\s*0\s*\.\.\s*0\s*\]", lambda m, s_: f"vempty_prefix(&{''.join(m.group(1).split())})")
    t, n2 = _sub_masked(t, r"((?:\w+\s*\.\s*)*\w+)\s*\.\s*extend\(\s*((?:\w+\s*\.\s*)*\w+)\s*\.\s*iter\(\)\s*\.\s*copied\(\)\s*\)", lambda m, s_: f"{''.join(m.group(1).split())}.vextend({''.join(m.group(2).split())})")
    if n + n2:
        applied.append(f"R40x{n + n2}")
    return t


def rule_R8bitget(text, applied):
    """`E.get(I).as_deref().copied()` on a BitVec -> `E.vget(I)` (stub method: Some(bit) in range, None beyond)."""
    t, n = _sub_masked(text, r"\.\s*get\(([^\)]+)\)\s*\.\s*as_deref\(\)\s*\.\s*copied\(\)", lambda m, s: f".vget({m.group(1).strip()})")
    if n:
        applied.append(f"R8bitgetx{n}")
    return t


def rule_R8index(text, applied, arg=None):
    """`&RECV[ID]` on an Arena -> `RECV.METHOD(ID)`; arg = RECV[=METHOD] (exact receiver path; METHOD defaults
    to the stand-in's `vindex`, `index` names the hosted `Index::index` of the extracted Arena)."""
    recv, _, meth = arg.partition("=")
    meth = meth or "vindex"
    t, n = _sub_masked(text, r"(?<![\w\.])" + re.escape(recv) + r"\[([^\]]+)\]", lambda m, s: f"(*{recv}.{meth}({m.group(1).strip()}))")
    if n:
        applied.append(f"R8index({arg})x{n}")
    return t


def rule_R8collectid(text, applied):
    """`E.into_iter().collect()` bound to a `let X: Vec<T> = ...` -> `E` (collecting a Vec's own into_iter is
    the identity; if E is not a Vec<T> the annotated let no longer type-checks => undecided)."""
    t, n = _sub_masked(text, r"\s*\.\s*into_iter\(\)\s*\.\s*collect\(\)", lambda m, s: "")
    if n:
        applied.append(f"R8collectidx{n}")
    return t


def rule_R12cell(text, applied, arg=None):
    """cell erasure for the insert-only containers (DESIGN 2.3 R12): `UnsafeCell<T>`/`Cell<T>` -> `T`;
    `c.get()`/`c.set(v)` on the Cell fields named in arg (comma separated `field` list after `cells=`) ->
    read / assignment; `&mut *self.F.get()` -> `&mut self.F`; `self.F.get()` on UnsafeCell fields (after
    `unsafe=`) -> `&self.F`; `UnsafeCell::from/new(E)`, `Cell::new(E)` -> `E`; arg `mutself` turns the
    receiver `&self` into `&mut self`."""
    args = dict(a.split("=", 1) if "=" in a else (a, "") for a in (arg or "").split(";") if a)
    cnt = 0
    # types
    while True:
        m_text = mask(text)
        m = re.search(r"\b(?:UnsafeCell|Cell)\s*<", m_text)
        if not m:
            break
        # matching '>'
        d, k = 0, m.end() - 1
        while k < len(m_text):
            if m_text[k] == "<":
                d += 1
            elif m_text[k] == ">" and m_text[k - 1] != "-":
                d -= 1
                if d == 0:
                    break
            k += 1
        text = text[:m.start()] + text[m.end():k] + text[k + 1:]
        cnt += 1
    # constructors
    for ctor in (r"UnsafeCell::from", r"UnsafeCell::new", r"Cell::new"):
        while True:
            m_text = mask(text)
            m = re.search(r"\b" + ctor + r"\s*\(", m_text)
            if not m:
                break
            cp = match_close(m_text, m.end() - 1)
            text = text[:m.start()] + text[m.end():cp] + text[cp + 1:]
            cnt += 1
    for f in [x for x in args.get("cells", "").split("+") if x]:
        t, n1 = _sub_masked(text, r"\b((?:\w+\.)*" + re.escape(f) + r")\.get\(\)", lambda m, s: m.group(1))
        text = t
        while True:
            m_text = mask(text)
            m = re.search(r"\b((?:\w+\.)*" + re.escape(f) + r")\.set\(", m_text)
            if not m:
                break
            cp = match_close(m_text, m.end() - 1)
            text = text[:m.start()] + f"{m.group(1)} = " + text[m.end():cp] + text[cp + 1:]
            cnt += 1
        cnt += n1
    for f in [x for x in args.get("unsafe", "").split("+") if x]:
        t, n1 = _sub_masked(text, r"&mut\s*\*\s*((?:\w+\.)*" + re.escape(f) + r")\.get\(\)", lambda m, s: "&mut " + m.group(1))
        amp_ = "&mut " if "mutself" in args else "&"
        t, n2 = _sub_masked(t, r"\b((?:\w+\.)*" + re.escape(f) + r")\.get\(\)", lambda m, s: amp_ + m.group(1))
        t, n3 = _sub_masked(t, r"\b((?:\w+\.)*" + re.escape(f) + r")\.get_mut\(\)", lambda m, s: "(&mut " + m.group(1) + ")")
        text = t
        cnt += n1 + n2 + n3
    if "mutself" in args:
        t, n1 = _sub_masked(text, r"\(\s*&self\b(?=\s*[,)])", lambda m, s: "(&mut self")
        text = t
        cnt += n1
    applied.append(f"R12cell({arg})x{cnt}")
    return text


def rule_R8resize_veccap(text, applied, arg=None):
    """`RECV.resize_with(N, || Vec::with_capacity(C))` -> `vresize_with_veccap(&mut RECV, N, C)` (trusted helper:
    new elements are empty vectors)."""
    cnt = 0
    while True:
        m_text = mask(text)
        m = re.search(r"((?:[A-Za-z_][A-Za-z0-9_]*\s*\.\s*)*[A-Za-z_][A-Za-z0-9_]*)\s*\.\s*resize_with\s*\(", m_text)
        if not m:
            break
        op = m.end() - 1
        cp = match_close(m_text, op)
        inner, inner_m = text[op + 1:cp], m_text[op + 1:cp]
        parts = split_top_level(inner_m, inner)
        cm = re.fullmatch(r"\|\|\s*Vec::with_capacity\((.*)\)", parts[1].strip()) if len(parts) == 2 else None
        if not cm:
            raise ExtractError("R8resize_veccap: closure is not `|| Vec::with_capacity(C)` (outside the subset)")
        recv = "".join(text[m.start(1):m.end(1)].split())
        # arg `deref`: RECV is a `&mut Vec<..>` local (reborrow); a wrong choice does not type-check (=> undecided)
        amp = "&mut *" if arg == "deref" else "&mut "
        new = f"{{ let n_ = {parts[0].strip()}; vresize_with_veccap({amp}{recv}, n_, {cm.group(1).strip()}) }}"
        text = text[:m.start()] + _keep_newlines(text[m.start():cp + 1], new) + text[cp + 1:]
        cnt += 1
    if cnt:
        applied.append(f"R8resize_veccapx{cnt}")
    return text


def rule_R8contains(text, applied, arg=None):
    """`X.contains(&Y)` on a Vec -> `HELPER(&X, Y)`; arg = HELPER (a verified linear-search helper for the
    element type; slice::contains has no Verus contract)."""
    t, n = _sub_masked(text, r"((?:\w+\.)*\w+)\s*\.\s*contains\(\s*&\s*(\w+)\s*\)", lambda m, s: f"{arg}(&{m.group(1)}, {m.group(2)})")
    if n:
        applied.append(f"R8contains({arg})x{n}")
    return t


def rule_R8rposition(text, applied):
    """`E[..N].iter().rposition(Option::is_some)` -> `vrposition_some(&E, N)` (verified helper: the last index below N
    holding a Some)."""
    t, n = _sub_masked(text, r"((?:[\w\.]+)(?:\[[^\]]+\])*)\[\s*\.\.\s*([^\]]+)\]\s*\.\s*iter\(\)\s*\.\s*rposition\(\s*Option::is_some\s*\)",
                       lambda m, s: f"vrposition_some(&{m.group(1)}, {m.group(2).strip()})")
    if n:
        applied.append(f"R8rpositionx{n}")
    return t


def rule_R8intonext(text, applied):
    """`X.into_iter().next()` on a Vec of Copy elements -> `vinto_first(X)` (verified helper: the first element, if any)."""
    t, n = _sub_masked(text, r"((?:\w+\.)*\w+)\s*\.\s*into_iter\(\)\s*\.\s*next\(\)", lambda m, s: f"vinto_first({m.group(1)})")
    if n:
        applied.append(f"R8intonextx{n}")
    return t


def rule_R8find(text, applied):
    """`X.into_iter().find(|&V| COND)` on a Vec of Copy elements -> the index loop
    `{ let fv_ = X; let mut fi_: usize = 0; let mut found_ = None; while fi_ < fv_.len() && found_.is_none()
    { let V = fv_[fi_]; fi_ += 1; if COND { found_ = Some(V); } } found_ }`
    (Iterator::find: the first element, in order, for which the predicate holds; the predicate is evaluated for the
    elements up to and including that one only).  The loop invariant comes from the template (`//@loop /while fi_ </`)."""
    cnt = 0
    while True:
        m_text = mask(text)
        m = re.search(r"((?:\w+\.)*\w+)\s*\.\s*into_iter\(\)\s*\.\s*find\(\s*\|\s*&(\w+)\s*\|", m_text)
        if not m:
            break
        op = m_text.index("(", m_text.index("find", m.start(1) + len(m.group(1))))
        cp = match_close(m_text, op)
        cond = text[m.end():cp].strip()
        v = m.group(2)
        new = (f"{{ let fv_ = {m.group(1)}; let mut fi_: usize = 0; let mut found_ = None; "
               f"while fi_ < fv_.len() && found_.is_none() {{ let {v} = fv_[fi_]; fi_ += 1; if {cond} {{ found_ = Some({v}); }} }} found_ }}")
        text = text[:m.start()] + _keep_newlines(text[m.start():cp + 1], new) + text[cp + 1:]
        cnt += 1
    if cnt:
        applied.append(f"R8findx{cnt}")
    return text


def rule_R41(text, applied):
    """`X.sort_by_key(|&V| KEY);` on a slice of Copy elements with a u32 key -> the keys are computed by an index loop, then
    the trusted stand-in for std's STABLE sort orders X by them:
      { let mut sk_ = Vec::new(); let mut si_: usize = 0; while si_ < X.len() { let V = X[si_]; si_ += 1; sk_.push(KEY); }
        vsort_by_keys(X, &sk_); }
    (slice::sort_by_key: "This sort is stable"; the key function is pure here, so evaluating it once per element -- rather than
    once per comparison -- yields the same order; a panic inside KEY is covered for every element, although std does not call
    KEY at all for slices shorter than two.)"""
    cnt = 0
    while True:
        m_text = mask(text)
        m = re.search(r"((?:\w+\s*\.\s*)*\w+)\s*\.\s*sort_by_key\(\s*\|\s*&\s*(\w+)\s*\|", m_text)
        if not m:
            break
        op = m_text.index("(", m_text.index("sort_by_key", m.start(1) + len(m.group(1))))
        cp = match_close(m_text, op)
        key = " ".join(text[m.end():cp].split())
        x, v = "".join(m.group(1).split()), m.group(2)
        code = (f"{{ let mut sk_ = Vec::new(); let mut si_: usize = 0; while si_ < {x}.len() {{ let {v} = {x}[si_]; si_ += 1; sk_.push({key}); }} "
                f"vsort_by_keys({x}, &sk_); }}")
        text = text[:m.start()] + _keep_newlines(text[m.start():cp + 1], code) + text[cp + 1:]
        cnt += 1
    if cnt:
        applied.append(f"R41x{cnt}")
    return text


def rule_R42(text, applied, arg=None):
    """`CHAIN.FIELD.clone()` -> `HELPER(&CHAIN.FIELD)` for a field whose type has a derived Clone (arg `FIELD=HELPER`; the helper
    is the unit's stand-in/verified copy for that type: an equal value).  CHAIN is the maximal postfix chain in front of the
    field (identifiers, field accesses, calls with balanced parentheses)."""
    field, helper = arg.split("=")
    cnt = 0
    while True:
        m_text = mask(text)
        m = re.search(r"\.\s*" + re.escape(field) + r"\s*\.\s*clone\(\)", m_text)
        if not m:
            break
        k = m.start()
        # walk back over the postfix chain
        while k > 0:
            j = k - 1
            while j >= 0 and m_text[j] in " \t\n":
                j -= 1
            if j >= 0 and m_text[j] == ")":
                j = match_open_idx(m_text, j)
                k = j
                continue
            if j >= 0 and (m_text[j].isalnum() or m_text[j] == "_"):
                while j >= 0 and (m_text[j].isalnum() or m_text[j] == "_"):
                    j -= 1
                k = j + 1
                jj = j
                while jj >= 0 and m_text[jj] in " \t\n":
                    jj -= 1
                if jj >= 0 and m_text[jj] == ".":
                    k = jj
                    continue
                break
            break
        chain = " ".join(text[k:m.start()].split())
        new = f"{helper}(&{chain}.{field})"
        text = text[:k] + _keep_newlines(text[k:m.end()], new) + text[m.end():]
        cnt += 1
    if cnt:
        applied.append(f"R42({field})x{cnt}")
    return text


def rule_R43(text, applied):
    """`X.iter().filter_map(|PAT| { EXPR }).collect::<Vec<_>>()` (a let initialiser) -> the loop that is the std definition of
    iter + filter_map + collect: EXPR is evaluated for the items in order, the `Some` payloads are pushed:
      { let mut fmN_ = Vec::new(); let mut fiN_: usize = 0; while fiN_ < X.len() { BIND fiN_ += 1;
        match EXPR { Some(fmvN_) => { fmN_.push(fmvN_); } None => {} } } fmN_ }
    BIND binds the closure's pattern to references into X[fiN_]: `x` -> `let x = &X[i];`, a tuple pattern `(a, _)` ->
    `let a = &X[i].0;` (the closure receives a reference; `_` binds nothing)."""
    cnt = 0
    while True:
        m_text = mask(text)
        m = re.search(r"((?:\w+\s*\.\s*)*\w+)\s*\.\s*iter\(\)\s*\.\s*filter_map\s*\(\s*\|\s*(\([^()|]*\)|\w+)\s*\|\s*", m_text)
        if not m:
            break
        x, pat = "".join(m.group(1).split()), text[m.start(2):m.end(2)]
        op = m_text.index("(", m_text.index("filter_map", m.end(1)))
        cp = match_close(m_text, op)
        body = text[m.end():cp].strip()
        if body.startswith("{") and match_close(mask(body), 0) == len(body) - 1:
            body = body[1:-1].strip()
        if re.search(r"\breturn\b|;", mask(body)):
            raise ExtractError("R43: filter_map closure outside the subset")
        cm = re.match(r"\s*\.\s*collect(?:::<[^;]*?>)?\(\)", m_text[cp + 1:])
        if not cm:
            raise ExtractError("R43: filter_map(..) is not followed by collect() (outside the subset)")
        end = cp + 1 + cm.end()
        n = cnt
        if pat.startswith("("):
            parts = [p_.strip() for p_ in pat[1:-1].split(",")]
            bind = " ".join(f"let {p_} = &{x}[fi{n}_].{k};" for k, p_ in enumerate(parts) if p_ and p_ != "_")
        else:
            bind = f"let {pat} = &{x}[fi{n}_];"
        code = (f"{{ let mut fm{n}_ = Vec::new(); let mut fi{n}_: usize = 0; while fi{n}_ < {x}.len() {{ {bind} fi{n}_ += 1; "
                f"match {' '.join(body.split())} {{ Some(fmv{n}_) => {{ fm{n}_.push(fmv{n}_); }} None => {{}} }} }} fm{n}_ }}")
        text = text[:m.start()] + _keep_newlines(text[m.start():end], code) + text[end:]
        cnt += 1
    if cnt:
        applied.append(f"R43x{cnt}")
    return text


def rule_R44(text, applied, arg=None):
    """explicit `drop(G);` of a guard value `let G = TYPE { f: E, .. };` (arg: TYPE) -> the body of `impl Drop for TYPE`
    (taken from the same repository file) inlined at the `drop(G);` statement with `self.f` replaced by E -- an explicit
    `drop(g)` runs `Drop::drop(&mut g)` right there; the `let` statement itself only moves values and is removed.  A
    reference-typed field initialised with `&PLACE` is replaced by PLACE (auto-deref).  NOT covered: the implicit drop when
    the enclosing future is dropped at an `.await` (the very reason such guards exist) -- the sync projection has no such
    event.  A guard that is not dropped explicitly is outside the subset."""
    src = Source.get(CURRENT_FILE[0])
    dm = re.search(r"impl(?:<[^>]*>)?\s+Drop\s+for\s+" + re.escape(arg) + r"\b[^{]*\{", src.masked)
    if not dm:
        raise ExtractError(f"R44: no `impl Drop for {arg}` in {CURRENT_FILE[0]} (lost anchor)")
    iend = match_close(src.masked, dm.end() - 1)
    fm = re.search(r"fn\s+drop\s*\(\s*&mut\s+self\s*\)\s*\{", src.masked[dm.end():iend])
    if not fm:
        raise ExtractError("R44: Drop::drop not found")
    bo = dm.end() + fm.end() - 1
    bc = match_close(src.masked, bo)
    body = strip_attrs_and_docs(src.text[bo + 1:bc])
    m_text = mask(text)
    lm = re.search(r"\blet\s+(\w+)\s*=\s*" + re.escape(arg) + r"\s*\{", m_text)
    if not lm:
        raise ExtractError(f"R44: no `let g = {arg} {{..}}` (lost anchor)")
    lc = match_close(m_text, lm.end() - 1)
    semi = m_text.index(";", lc)
    fields = {}
    from rustlex import split_top_level
    for part in split_top_level(mask(text[lm.end():lc]), text[lm.end():lc], ","):
        part = part.strip()
        if not part:
            continue
        if ":" in part:
            k, v = part.split(":", 1)
            fields[k.strip()] = v.strip()
        else:
            fields[part] = part
    g = lm.group(1)
    text2 = text[:lm.start()] + _keep_newlines(text[lm.start():semi + 1], "") + text[semi + 1:]
    m2 = mask(text2)
    dms = list(re.finditer(r"\bdrop\(\s*" + re.escape(g) + r"\s*\)\s*;", m2))
    if len(dms) != 1:
        raise ExtractError(f"R44: expected exactly one explicit `drop({g});` (found {len(dms)}) -- outside the subset")
    probe = body
    for k in fields:
        probe = re.sub(r"\bself\s*\.\s*" + re.escape(k) + r"\b", "", probe)
    if re.search(r"\bself\b", mask(probe)):
        raise ExtractError("R44: the Drop body mentions self other than through the guard's fields")
    for k, v in fields.items():
        v2 = v[1:].strip() if v.startswith("&") and not v.startswith("&mut") else v
        body = re.sub(r"\bself\s*\.\s*" + re.escape(k) + r"\b", v2, body)
    inl = "{ " + " ".join(body.split()) + " }"
    d = dms[0]
    text2 = text2[:d.start()] + _keep_newlines(text2[d.start():d.end()], inl) + text2[d.end():]
    applied.append(f"R44({arg})")
    return text2


def rule_R20(text, applied):
    """visitor call -> index loop: `RECV.visit_literals(A, B, |x| { BODY });` becomes
    `{ let lits_ = vclause_literals(&RECV, A, B); let mut li_: usize = 0; while li_ < lits_.len() { let x = lits_[li_];
    li_ += 1; BODY' } }` where BODY' is BODY with the closure's `return;` turned into `continue;`.
    Justification: Clause::visit_literals (clause.rs) is `try_fold_literals((), |_, lit| { visit(lit); Continue(()) })`
    and try_fold_literals is verified (unit prop) to visit exactly lits_of(clause) in order; the helper
    vclause_literals returns that sequence (trusted bridge, prelude/visit_helpers.rs)."""
    cnt = 0
    while True:
        m_text = mask(text)
        m = re.search(r"\.\s*visit_literals\s*\(", m_text)
        if not m:
            break
        op = m.end() - 1
        cp = match_close(m_text, op)
        # statement start: the receiver expression begins after the previous `;`, `{` or `}` at this depth
        k = m.start() - 1
        depth = 0
        while k >= 0:
            ch = m_text[k]
            if ch in ")]}":
                if ch == "}" and depth == 0:
                    break
                depth += 1
            elif ch in "([{":
                if depth == 0:
                    break
                depth -= 1
            elif ch == ";" and depth == 0:
                break
            k -= 1
        rs = k + 1
        recv = " ".join(text[rs:m.start()].split())
        # closure `|x| {` at depth 0 inside the argument list
        d = 0
        bar = -1
        for q in range(op + 1, cp):
            ch = m_text[q]
            if ch in "([{":
                d += 1
            elif ch in ")]}":
                d -= 1
            elif ch == "|" and d == 0:
                bar = q
                break
        if bar < 0:
            raise ExtractError("R20: visitor closure not found")
        cm = re.match(r"\|\s*(\w+)\s*\|\s*\{", m_text[bar:cp])
        if not cm:
            raise ExtractError("R20: closure is not of the form |x| { .. }")
        var = cm.group(1)
        ob = bar + cm.end() - 1
        cb = match_close(m_text, ob)
        args = text[op + 1:bar].rstrip()
        if args.endswith(","):
            args = args[:-1]
        after = m_text[cb + 1:cp].strip()
        if after not in ("", ","):
            raise ExtractError("R20: unexpected text after the closure")
        semi = cp + 1
        while semi < len(m_text) and m_text[semi] in " \t\n":
            semi += 1
        if semi >= len(m_text) or m_text[semi] != ";":
            raise ExtractError("R20: visitor call is not a statement")
        body = text[ob + 1:cb]
        mb = mask(body)
        # `return;` of the closure -> `continue;` (nested closures are not expected in the body)
        if re.search(r"\|[^|]*\|", mb):
            raise ExtractError("R20: nested closure in visitor body")
        if re.search(r"\breturn\s+[^;]", mb):
            raise ExtractError("R20: visitor closure returns a value")
        body, _n = _sub_masked(body, r"\breturn\s*;", lambda mm, s_: "continue;")
        head = f"{{ let lits_ = vclause_literals(&{recv}, {' '.join(args.split())}); let mut li_: usize = 0; while li_ < lits_.len() {{ let {var} = lits_[li_]; li_ += 1;"
        tail = "} }"
        text = text[:rs] + " " + _keep_newlines(text[rs:ob + 1], head) + body + _keep_newlines(text[cb:semi + 1], tail) + text[semi + 1:]
        cnt += 1
    if cnt:
        applied.append(f"R20x{cnt}")
    return text


def rule_R21(text, applied, arg=None):
    """`let [mut] X = RECV.METHOD(&mut ARG, REST);` (METHOD takes `&mut self`) -> the two mutable borrows are bound to
    locals first: `let rcv_ = &mut RECV; let arg_ = &mut ARG; let [mut] X = rcv_.METHOD(arg_, REST);` (same
    evaluation order; lets ghost code name the final values of the borrows).  arg: METHOD."""
    meth = arg or "cursor"
    m_text = mask(text)
    m = re.search(r"\blet\s+(mut\s+)?(\w+)\s*=\s*([\w\s\.]+?)\s*\.\s*" + re.escape(meth) + r"\s*\(\s*&mut\s+", m_text)
    if not m:
        return text
    op = m_text.index("(", m.start(3) + len(m.group(3)))
    cp = match_close(m_text, op)
    parts = split_top_level(m_text[op + 1:cp], text[op + 1:cp])
    first = parts[0].strip()
    if not first.startswith("&mut "):
        raise ExtractError("R21: first argument is not a `&mut` borrow")
    recv = "".join(text[m.start(3):m.start(3) + len(m.group(3))].split())
    rest = ", ".join(" ".join(p.split()) for p in parts[1:] if p.strip())
    semi = cp + 1
    while m_text[semi] in " \t\n":
        semi += 1
    if m_text[semi] != ";":
        raise ExtractError("R21: call is not a let statement")
    new = (f"let rcv_ = &mut {recv}; let arg_ = {' '.join(first.split())};\n"
           f"let {m.group(1) or ''}{m.group(2)} = rcv_.{meth}(arg_{', ' + rest if rest else ''});")
    text = text[:m.start()] + _keep_newlines(text[m.start():semi + 1], new) + text[semi + 1:]
    applied.append(f"R21({meth})")
    return text


def rule_subst(text, applied, arg=None):
    """literal type substitution OLD=>NEW inside the item (e.g. `Box<dyn Any>` => an opaque type parameter)."""
    old, new = arg.replace("~", " ").replace("%2C", ",").split("=>")
    n = text.count(old)
    applied.append(f"subst({old}=>{new})x{n}")
    return text.replace(old, new)


def rule_const(text, applied):
    """`const fn` -> `fn` (const-ness is irrelevant to behaviour)."""
    t, n = _sub_masked(text, r"\bconst\s+(?=fn\b)", lambda m, s: "")
    return t


RULES = {
    "R26": rule_R26, "R26fm": rule_R26fm,
    "R25": rule_R25, "R7optake": rule_R7optake,
    "R23": rule_R23, "R24": rule_R24,
    "R16push": rule_R16push, "R22": rule_R22, "R22flat": rule_R22flat,
    "R20": rule_R20, "R21": rule_R21, "R7stackrev": rule_R7stackrev, "R7pairs": rule_R7pairs, "R7indexmap": rule_R7indexmap, "R12frozen": rule_R12frozen, "R45": rule_R45, "R12frozencopy": rule_R12frozencopy, "R40": rule_R40, "R39": rule_R39, "R7intoenum": rule_R7intoenum, "substws": rule_substws, "R38": rule_R38, "R9enc": rule_R9enc, "R37": rule_R37, "R36": rule_R36, "R35": rule_R35, "R16oiw": rule_R16oiw, "R9blockon": rule_R9blockon, "R34": rule_R34, "R31": rule_R31, "R30": rule_R30, "R26it": rule_R26it, "R29": rule_R29, "R7own": rule_R7own, "R28": rule_R28, "R27": rule_R27, "R8all": rule_R8all, "R16od": rule_R16od, "R10site": rule_R10site,
    "R1": rule_R1, "R2": rule_R2, "R2ref": rule_R2ref, "R3": rule_R3, "R4": rule_R4, "R5": rule_R5,
    "R8max": rule_R8max, "R8cmpmax": rule_R8cmpmax, "R8resize_none": rule_R8resize_none, "R9": rule_R9, "R8position": rule_R8position, "R8rotate": rule_R8rotate, "R12refcell": rule_R12refcell,
    "R8slice": rule_R8slice, "R7iter": rule_R7iter, "R8bitget": rule_R8bitget, "R8intonext": rule_R8intonext, "R8find": rule_R8find, "R41": rule_R41, "R44": rule_R44, "R43": rule_R43, "R42": rule_R42, "R8rposition": rule_R8rposition, "R8contains": rule_R8contains, "R12cell": rule_R12cell, "R8resize_veccap": rule_R8resize_veccap, "R8collectid": rule_R8collectid, "R8index": rule_R8index, "subst": rule_subst,
    "R7ref": rule_R7ref, "R6": rule_R6, "R16": rule_R16, "R14q": rule_R14q, "R7stack": rule_R7stack, "R18": rule_R18, "R8frozenindex": rule_R8frozenindex, "R7range": rule_R7range, "R14err": rule_R14err, "R7array": rule_R7array, "R17": rule_R17,
    "R13": rule_R13, "R14": rule_R14, "R2set": rule_R2set, "R8first": rule_R8first, "R7": rule_R7, "R10": rule_R10, "R11": rule_R11,
}
ALWAYS = [rule_vis, rule_tracing, rule_const]


def register_rule(name, fn):
    RULES[name] = fn


# ----------------------------------------------------------------------------- splice

def strip_attrs_and_docs(text):
    """Remove doc comments and attribute lines inside an item (kept as blank lines).  A statement that is only
    compiled with the `diagnostics` feature (`#[cfg(feature = "diagnostics")]` on its own line, then a one-line
    statement) is dropped together with its attribute (DESIGN 2.1: diagnostics code is not extracted)."""
    out = []
    drop_next = False
    for ln in text.split("\n"):
        s = ln.strip()
        if drop_next and s:
            drop_next = False
            if s.endswith(";") and mask(s).count("{") == mask(s).count("}"):
                out.append("")
                continue
            raise ExtractError("a #[cfg(feature = \"diagnostics\")] attribute inside a body is not followed by a one-line statement")
        if re.fullmatch(r'#\[cfg\(feature\s*=\s*"diagnostics"\)\]', s) and ln.startswith("        "):
            drop_next = True
            out.append("")
            continue
        if s.startswith("///") or s.startswith("//!"):
            out.append("")
        elif re.match(r"#!?\[.*\]$", s) and not s.startswith("#[verifier"):
            out.append("")
        else:
            out.append(ln)
    return "\n".join(out)


def dedent_to(text, first_line_indent):
    lines = text.split("\n")
    out = []
    for ln in lines:
        if ln.startswith(" " * first_line_indent):
            out.append(ln[first_line_indent:])
        else:
            out.append(ln.lstrip() if not ln.strip() else ln)
    return "\n".join(out)


class Emitter:
    def __init__(self):
        self.lines = []  # (text, origin) origin = (file, line) | None
        self.items = []  # metadata

    def emit(self, text, origin=None):
        for k, ln in enumerate(text.split("\n")):
            o = (origin[0], origin[1] + k) if origin else None
            self.lines.append((ln, o))

    def emit_mapped(self, pieces):
        """pieces: list of (text, origin|None); text may span lines; consecutive pieces are
        concatenated (a piece need not end in a newline)."""
        cur, cur_o = "", None
        for text, origin in pieces:
            parts = text.split("\n")
            for k, p in enumerate(parts):
                if k > 0:
                    self.lines.append((cur, cur_o))
                    cur, cur_o = "", None
                if p and cur_o is None and origin:
                    cur_o = (origin[0], origin[1] + k)
                cur += p
        self.lines.append((cur, cur_o))


def loops_in(m_text, lo, hi):
    """(keyword_pos, body_open) for every loop keyword in textual order within [lo,hi)."""
    res = []
    for m in re.finditer(r"\b(loop|while|for)\b", m_text[lo:hi]):
        at = lo + m.start()
        # `for` in `for<'a>` or `impl X for Y` cannot occur inside bodies we extract; guard anyway
        ob = next_body_brace(m_text, lo + m.end(), stop_chars=";")
        if ob < 0 or ob >= hi:
            continue
        res.append((at, ob))
    return res


def apply_callblocks(src, selector, start, end, raw, sections, emitter):
    """`//@callblock NAME [last]` sections: the statement range that was extracted before as block NAME (same file,
    inside this item's span) is replaced by the section's text -- the call of the block's wrapper.  The replaced
    range is exactly the block's range (the same anchors that produced the block), so block + remaining text tile
    the item mechanically; the only hand-written text is the call.  With `last` the block must be the last
    statement(s) of its enclosing braces (needed when the wrapper turns `continue`/fall-through into `return`)."""
    reps = []
    for key in list(sections):
        if not key.startswith("callblock "):
            continue
        toks = key.split()
        bn = toks[1]
        its = [it for it in emitter.items if it.get("block") and it["name"] == bn and it["file"] == src.rel]
        if not its:
            raise ExtractError(f"{selector}: callblock {bn}: block not extracted before this item")
        a, b = its[-1]["repo_span"]
        if not (start <= a < b <= end):
            raise ExtractError(f"{selector}: callblock {bn}: the block does not lie inside this item (lost anchor)")
        if "last" in toks[2:]:
            k = b
            while k < end and src.masked[k] in " \t\n":
                k += 1
            if src.masked[k] != "}":
                raise ExtractError(f"{selector}: callblock {bn}: statements follow the block inside its enclosing braces (construct outside the composed subset)")
        call = " ".join(sections[key].split())
        reps.append((a, b, call, bn))
        del sections[key]
    for key in list(sections):
        if not key.startswith("dropitem "):
            continue
        # `//@dropitem struct NAME`: a local item declared inside the body that was extracted as a top-level item
        # before (Verus has no items inside function bodies); its text is blanked
        kind_, nm_ = key.split()[1], key.split()[2]
        if not [it for it in emitter.items if it["kind"] == kind_ and it["name"] == nm_ and it["file"] == src.rel]:
            raise ExtractError(f"{selector}: dropitem {nm_}: the item was not extracted before this function")
        im = re.search(r"\b" + kind_ + r"\s+" + re.escape(nm_) + r"\s*\{", src.masked[start:end])
        if not im:
            raise ExtractError(f"{selector}: dropitem {nm_}: local item not found (lost anchor)")
        a = start + im.start()
        b = match_close(src.masked, start + im.end() - 1) + 1
        reps.append((a, b, "", "item " + nm_))
        del sections[key]
    reps.sort()
    for (a, b, _, bn), (a2, b2, _, bn2) in zip(reps, reps[1:]):
        if a2 < b:
            raise ExtractError(f"{selector}: callblock {bn2} overlaps {bn}")
    out = raw
    for a, b, call, bn in reversed(reps):
        nl = src.text[a:b].count("\n")
        lead = src.text[a:b][:len(src.text[a:b]) - len(src.text[a:b].lstrip(" \t"))]
        out = out[:a - start] + lead + call + "\n" * nl + out[b - start:]
    return out, [f"callblock({bn})" for _, _, _, bn in reps]



def build_fn(src: Source, selector, opts, sections, emitter: Emitter, unit_rules_log):
    CURRENT_FILE[0] = src.rel
    start, ob, end, kind, hdr = src.locate_fn(selector)
    raw = src.text[start:end]
    first_line = line_of(src.text, start)
    indent = len(src.text[start:]) - len(src.text[start:].lstrip(" "))
    sha = hashlib.sha256(raw.encode()).hexdigest()

    raw_cb, cb_applied = apply_callblocks(src, selector, start, end, raw, sections, emitter)
    text = strip_attrs_and_docs(raw_cb)
    applied = list(cb_applied)
    for r in ALWAYS:
        text = r(text, applied)
    for rn in opts.get("rules", []):
        if rn == "Host":
            # trait-impl method hosted in an inherent impl block of the template (no associated types involved)
            kind = "inherent"
            applied.append("Host(trait-impl method as inherent method)")
            continue
        if rn == "SelfItem":
            # trait-impl method hosted in an inherent impl: `Self::Item` -> the impl's `type Item = ..;`
            m_ = re.fullmatch(r"<(\w+) as (\w+)>::(\w+)", selector.strip())
            if not m_:
                raise ExtractError("SelfItem needs a trait-impl selector")
            bl = src.find_impl(m_.group(1), m_.group(2))
            assoc = {a: t_.strip() for a, t_ in re.findall(r"\btype\s+(\w+)\s*=\s*([^;]*);", src.text[bl[0][2]:bl[0][3]])}
            if not assoc:
                raise ExtractError("SelfItem: no associated type in the impl (lost anchor)")
            for a_, t_ in assoc.items():
                text, n_ = _sub_masked(text, r"\bSelf::" + a_ + r"\b", lambda m, s, t=t_: t)
                applied.append(f"SelfItem({a_}={t_})x{n_}")
            kind = "inherent"
            continue
        rname, _, rarg = rn.partition(":")
        if rname not in RULES:
            raise ExtractError(f"unknown rule {rn}")
        text = RULES[rname](text, applied, rarg) if rarg else RULES[rname](text, applied)
    # safe desugarings applied to every extracted fn (so that ordinary idioms introduced by a later edit stay inside
    # the subset): assert_eq!/assert_ne!, `|_|` closure parameters, Option combinators over closure literals
    for dflt in (rule_R3, rule_R4, rule_R14):
        try:
            text = dflt(text, applied)
        except ExtractError:
            pass
    # R19 closure hoist + contract splice: `//@closure NAME` section = typed parameter list and contract that
    # replace the `|params|` of the (single) closure literal; the closure is bound to NAME just before the
    # statement that contains it and NAME is passed instead (argument evaluation order is unchanged: creating a
    # closure has no effect).  The closure body is verbatim.
    for key in list(sections):
        if key.startswith("closure "):
            cname = key.split()[1]
            m_text = mask(text)
            cm = re.search(r"\|[^|\n]*\|\s*\{", m_text)
            if not cm or len(re.findall(r"\|[^|\n]*\|\s*\{", m_text)) != 1:
                raise ExtractError(f"{selector}: R19 expects exactly one closure literal with a block body (lost anchor)")
            cob = cm.end() - 1
            ccb = match_close(m_text, cob)
            body = text[cob:ccb + 1]
            # start of the enclosing statement
            k, depth = cm.start() - 1, 0
            while k >= 0:
                ch = m_text[k]
                if ch in ")]}":
                    depth += 1
                elif ch in "([{":
                    if depth == 0 and ch == "{":
                        break
                    depth -= 1 if depth > 0 else 0
                elif ch == ";" and depth == 0:
                    break
                k -= 1
            stmt = k + 1
            header = " ".join(sections[key].split())
            hoisted = f" let {cname} = {header} {body};"
            text = text[:stmt] + hoisted + text[stmt:cm.start()] + cname + text[ccb + 1:]
            applied.append(f"R19(closure->{cname})")
            del sections[key]
    if text.count("\n") != raw.count("\n"):
        raise ExtractError(f"{selector}: rewrite changed the line count")

    m_text = mask(text)
    fn_kw = re.search(r"\bfn\b", m_text).start()
    body_open = next_body_brace(m_text, fn_kw)
    has_body = ob >= 0
    # visibility
    if kind in ("inherent", "free") and opts.get("vis") != "keep":
        pre = text[:fn_kw]
        if "pub" not in pre:
            text = text[:len(pre) - len(pre.lstrip())] + "pub " + text[len(pre) - len(pre.lstrip()):]
            m_text = mask(text)
            fn_kw = re.search(r"\bfn\b", m_text).start()
            body_open = next_body_brace(m_text, fn_kw)
    if "rename" in opts:
        nm = re.search(r"\bfn\s+(\w+)", m_text)
        text = text[:nm.start(1)] + opts["rename"] + text[nm.end(1):]
        m_text = mask(text)
        body_open = next_body_brace(m_text, fn_kw)
    sig_end = body_open if has_body else m_text.rfind(";")
    # named return value
    if "ret" in opts:
        arrow = None
        depth = 0
        k = fn_kw
        while k < sig_end:
            ch = m_text[k]
            if ch in "([<":
                depth += 1
            elif ch in ")]":
                depth -= 1
            elif ch == ">" and m_text[k - 1] != "-":
                depth -= 1
            elif depth == 0 and m_text.startswith("->", k):
                arrow = k
                break
            k += 1
        if arrow is None:
            raise ExtractError(f"{selector}: ret= given but the function has no return type")
        wm = re.search(r"\bwhere\b", m_text[arrow:sig_end])
        ty_end = arrow + wm.start() if wm else sig_end
        ty = text[arrow + 2:ty_end]
        ty_s = ty.strip()
        lead = ty[:len(ty) - len(ty.lstrip())]
        trail = ty[len(ty.rstrip()):]
        new = f"->{lead}({opts['ret']}: {ty_s}){trail}"
        text = text[:arrow] + new + text[ty_end:]
        delta = len(new) - (ty_end - arrow)
        sig_end += delta
        m_text = mask(text)

    # insertion points (offsets in text) -> list of strings
    inserts = {}

    def add_insert(pos, s):
        inserts.setdefault(pos, []).append(s)

    spec = sections.get("spec")
    if spec:
        add_insert(sig_end, "\n" + spec.rstrip("\n") + "\n")
    if has_body:
        body_close = match_close(m_text, sig_end)
        lps = loops_in(m_text, sig_end + 1, body_close)
        for key, val in sections.items():
            if key.startswith("loop ") or key.startswith("loop? "):
                optional = key.startswith("loop? ")
                spec_ = key.split(None, 1)[1].strip()
                rm_ = re.match(r"/(.*)/\s*(\d+)?$", spec_)
                if rm_:
                    # loop selected by a regex on its header (keyword up to the body brace), k-th match
                    kk = int(rm_.group(2) or 1)
                    hits = [lp for lp in lps if re.search(rm_.group(1), m_text[lp[0]:lp[1]])]
                    if len(hits) < kk:
                        if optional:
                            continue
                        raise ExtractError(f"{selector}: loop /{rm_.group(1)}/ #{kk} not found (lost anchor)")
                    add_insert(hits[kk - 1][1], "\n" + val.rstrip("\n") + "\n")
                    continue
                n = int(spec_)
                if n < 1 or n > len(lps):
                    raise ExtractError(f"{selector}: loop {n} not found (function has {len(lps)} loops) (lost anchor)")
                add_insert(lps[n - 1][1], "\n" + val.rstrip("\n") + "\n")
            elif key.strip() == "hint start":
                # right after the opening brace of the body
                add_insert(sig_end + 1, "\n" + val.rstrip("\n") + "\n")
            elif re.match(r"hint\??\s+(afterloop|endloop|startloop) ", key):
                # right after the closing brace of a loop (afterloop) / as the last statements of its body (endloop);
                # the loop is selected like in //@loop: regex on its header, k-th match
                hm = re.match(r"hint\??\s+(afterloop|endloop|startloop) /(.*)/\s*(\d+)?$", key)
                if not hm:
                    raise ExtractError(f"bad hint directive `{key}`")
                kk = int(hm.group(3) or 1)
                hits = [lp for lp in lps if re.search(hm.group(2), m_text[lp[0]:lp[1]])]
                if len(hits) < kk and key.startswith("hint?"):
                    continue
                if len(hits) < kk:
                    raise ExtractError(f"{selector}: loop /{hm.group(2)}/ #{kk} not found (lost anchor)")
                cb_ = match_close(m_text, hits[kk - 1][1])
                add_insert(cb_ + 1 if hm.group(1) == "afterloop" else (hits[kk - 1][1] + 1 if hm.group(1) == "startloop" else cb_), "\n" + val.rstrip("\n") + "\n")
            elif key.startswith("hint ") or key.startswith("hint? "):
                hm = re.match(r"hint\??\s+(before|after) /(.*)/\s*(\d+)?$", key)
                if not hm:
                    raise ExtractError(f"bad hint directive `{key}`")
                where, rx, k = hm.group(1), hm.group(2), int(hm.group(3) or 1)
                ms = [m for m in re.finditer(rx, m_text[sig_end:body_close + 1])]
                if len(ms) < k and key.startswith("hint? "):
                    continue
                # also allow matching against unmasked text (string contents) if no masked match
                if len(ms) < k:
                    raise ExtractError(f"{selector}: hint anchor /{rx}/ #{k} not found (lost anchor)")
                pos = sig_end + (ms[k - 1].start() if where == "before" else ms[k - 1].end())
                add_insert(pos, "\n" + val.rstrip("\n") + "\n")
        declared_loops = sum(1 for k in sections if k.startswith("loop "))
    # assemble with origins
    pieces = []
    last = 0
    for pos in sorted(inserts):
        seg = text[last:pos]
        pieces.append((seg, last))
        for s in inserts[pos]:
            pieces.append((s, None))
        last = pos
    pieces.append((text[last:], last))
    out_pieces = []
    for seg, off in pieces:
        if off is None:
            out_pieces.append((seg, None))
        else:
            ln = first_line + text.count("\n", 0, off)
            out_pieces.append((seg, (src.rel, ln)))
    # dedent first-line indentation uniformly
    gen_start = len(emitter.lines)
    emitter.emit_mapped(out_pieces)
    for k in range(gen_start, len(emitter.lines)):
        t, o = emitter.lines[k]
        if t.startswith(" " * indent):
            emitter.lines[k] = ("    " + t[indent:] if kind != "free" else t[indent:], o)
    name = opts.get("rename") or selector
    emitter.items.append({
        "kind": "fn", "selector": selector, "name": name, "file": src.rel,
        "repo_lines": [first_line, first_line + raw.count("\n")],
        "gen_lines": [gen_start + 1, len(emitter.lines)],
        "sha256": sha, "rules": applied, "has_requires": bool(spec and re.search(r"\brequires\b", spec)),
        "contract": bool(spec), "has_body": has_body,
    })


def build_item(src: Source, kind, name, opts, emitter: Emitter):
    start, end = src.locate_item(kind, name, int(opts["nth"]) if "nth" in opts else None)
    raw = src.text[start:end]
    first_line = line_of(src.text, start)
    text = strip_attrs_and_docs(raw)
    applied = []
    for r in ALWAYS:
        text = r(text, applied)
    for rn in opts.get("rules", []):
        rname, _, rarg = rn.partition(":")
        text = RULES[rname](text, applied, rarg) if rarg else RULES[rname](text, applied)
    if kind in ("struct", "enum"):
        # all fields public so that contracts may mention them (DESIGN 2.1)
        m_text = mask(text)
        ob = next_body_brace(m_text, 0)
        if ob >= 0 and kind == "struct":
            lines = text.split("\n")
            for i, ln in enumerate(lines[1:], 1):
                if re.match(r"\s+[a-z_][A-Za-z0-9_]*\s*:", ln) and not ln.strip().startswith("pub"):
                    lines[i] = ln[:len(ln) - len(ln.lstrip())] + "pub " + ln.lstrip()
            text = "\n".join(lines)
        elif kind == "struct":
            # tuple struct: make fields public
            op = m_text.find("(")
            if op >= 0:
                cp = match_close(m_text, op)
                inner = text[op + 1:cp]
                parts = split_top_level(mask(inner), inner)
                parts = [p if p.strip().startswith("pub") or not p.strip() else " pub " + p.strip() for p in parts]
                text = text[:op + 1] + ",".join(parts).strip() + text[cp:]
        if not re.match(r"\s*pub\b", text):
            text = "pub " + text.lstrip()
        ds = opts.get("derive")
        if ds is None:
            all_ds = src.derives_before(start)
            ds = [d for d in all_ds if d in ("Copy", "Clone")]
            if "Copy" not in ds:
                ds = []
            for extra in opts.get("keep", []):
                if extra in all_ds:
                    ds.append(extra)
            # a *derived* PartialEq+Eq is structural equality: tell Verus so (marker derive)
            if "PartialEq" in ds and "Eq" in ds:
                ds.append("Structural")
        if ds:
            emitter.emit("#[derive(" + ", ".join(ds) + ")]")
        for tp in opts.get("rrt", []):
            emitter.emit(f"#[verifier::reject_recursive_types({tp})]")
    gen_start = len(emitter.lines)
    emitter.emit(text, (src.rel, first_line))
    emitter.items.append({
        "kind": kind, "selector": name, "name": name, "file": src.rel,
        "repo_lines": [first_line, first_line + raw.count("\n")],
        "gen_lines": [gen_start + 1, len(emitter.lines)],
        "sha256": hashlib.sha256(raw.encode()).hexdigest(), "rules": applied,
    })


def build_implhdr(src: Source, name, emitter: Emitter):
    m = re.fullmatch(r"<(\w+) as (\w+)>", name)
    bl = src.find_impl(m.group(1), m.group(2)) if m else src.find_impl(name, None)
    if not bl:
        raise ExtractError(f"{src.rel}: impl `{name}` not found")
    hdr, s, ob, cb = bl[0]
    emitter.emit(hdr + " {", (src.rel, line_of(src.text, s)))


def parse_opts(tokens):
    opts = {}
    for t in tokens:
        if "=" in t:
            k, v = t.split("=", 1)
            if k in ("rules", "derive", "keep", "rrt"):
                opts[k] = [x for x in v.split(",") if x]
            else:
                opts[k] = v
    return opts


def process_template(template_path, emitter=None):
    emitter = emitter or Emitter()
    with open(template_path) as f:
        tl = f.read().split("\n")
    i = 0
    while i < len(tl):
        ln = tl[i]
        s = ln.strip()
        if s.startswith("//@fn ") or s.startswith("//@block ") or s.startswith("//@compose "):
            is_block = s.startswith("//@block ")
            is_compose = s.startswith("//@compose ")
            toks = s.split()
            rel = toks[1]
            # selector may contain spaces: `<A as B>::f` or `trait T::f`
            rest = s.split(None, 2)[2]
            if is_block:
                bm = re.match(r"(.*?)\s+/(.*)/\s+/(.*)/\s*(.*)$", rest)
                selector, opt_toks = bm.group(1), bm.group(4).split()
                block_rx = (bm.group(2), bm.group(3))
            else:
                sm = re.match(r"(<\w+ as \w+>::\w+|trait \w+::\w+|[\w:]+)\s*(.*)$", rest)
                selector, opt_toks = sm.group(1), sm.group(2).split()
            opts = parse_opts(opt_toks)
            sections, cur = {}, None
            i += 1
            while i < len(tl) and tl[i].strip() != "//@end":
                t = tl[i].strip()
                if t.startswith("//@"):
                    cur = t[3:].strip()
                    if cur in sections:
                        raise ExtractError(f"{template_path}: duplicate section `//@{cur}` in the directive for {selector} (the first one would be lost)")
                    sections[cur] = ""
                elif cur is not None:
                    sections[cur] += tl[i] + "\n"
                i += 1
            if i >= len(tl):
                raise ExtractError(f"{template_path}: //@fn without //@end")
            if is_block:
                from blocks import build_block
                build_block(Source.get(rel), selector, block_rx, opts, sections, emitter)
            elif is_compose:
                from blocks import build_compose
                build_compose(Source.get(rel), selector, opts, sections, emitter)
            else:
                build_fn(Source.get(rel), selector, opts, sections, emitter, None)
        elif s.startswith("//@consts "):
            # every named top-level `const` of the file (so that code which starts using a new constant still extracts)
            rel = s.split()[1]
            src_ = Source.get(rel)
            for cm in re.finditer(r"(?m)^(?:pub(?:\([a-z]+\))?\s+)?const\s+([A-Za-z][A-Za-z0-9_]*)\s*:", src_.masked):
                if src_.depth[cm.start()] == 0:
                    build_item(src_, "const", cm.group(1), {}, emitter)
        elif s.startswith("//@item "):
            toks = s.split()
            rel, kind = toks[1], toks[2]
            rest = s.split(None, 3)[3]
            sm = re.match(r"(<\w+ as \w+>|\w+)\s*(.*)$", rest)
            build_item(Source.get(rel), kind, sm.group(1), parse_opts(sm.group(2).split()), emitter)
        elif s.startswith("//@implhdr "):
            toks = s.split(None, 2)
            build_implhdr(Source.get(toks[1]), toks[2].strip(), emitter)
        elif s.startswith("//@include "):
            inc = s.split()[1]
            p = os.path.join(os.path.dirname(os.path.abspath(__file__)), "..", inc)
            process_template(p, emitter)
        else:
            emitter.emit(ln)
        i += 1
    return emitter


def write_unit(template_path, out_rs):
    em = process_template(template_path)
    os.makedirs(os.path.dirname(out_rs), exist_ok=True)
    with open(out_rs, "w") as f:
        f.write("\n".join(t for t, _ in em.lines) + "\n")
    linemap = [list(o) if o else None for _, o in em.lines]
    files = sorted({it["file"] for it in em.items})
    meta = {
        "items": em.items,
        "linemap": linemap,
        "sources": {rel: Source.get(rel).sha for rel in files},
    }
    with open(out_rs + ".map.json", "w") as f:
        json.dump(meta, f)
    return meta


if __name__ == "__main__":
    try:
        meta = write_unit(sys.argv[1], sys.argv[2])
        print(f"extracted {len(meta['items'])} items -> {sys.argv[2]}")
    except (ExtractError, LexError) as e:
        print(f"UNDECIDED (extraction): {e}")
        sys.exit(2)
