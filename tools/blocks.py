"""Block extraction: a contiguous statement range of a function body, copied verbatim (modulo the
enumerated rewrite rules) into a wrapper function whose signature is given in the unit template.

  //@block <repo-file> <fn-selector> /start-regex/ /N/ name=NAME [rules=..]
  //@sig
      pub fn NAME(&self, a: A, b: &B) -> (r: R)        <- wrapper signature: the free variables of the block
  //@spec / //@loop n / //@hint ..                       <- as for //@fn
  //@tail
      expr                                               <- optional tail expression (value of the wrapper)
  //@end

The block starts at the first match of start-regex inside the function's body and spans N consecutive
statements at that nesting depth (second /../ is the statement count).
"""
import hashlib
import re

from rustlex import line_of, line_start, mask, match_close, next_body_brace


def statement_end(m_text, start):
    """offset just past the statement starting at `start` (same nesting depth)."""
    depth = 0
    k = start
    n = len(m_text)
    while k < n:
        ch = m_text[k]
        if ch in "([{":
            depth += 1
        elif ch in ")]}":
            depth -= 1
            if depth < 0:
                return k  # enclosing block ends
            if depth == 0 and ch == "}":
                # block-like statement ends here unless it continues (else / method chain / ; / ?)
                j = k + 1
                while j < n and m_text[j] in " \t\n":
                    j += 1
                rest = m_text[j:j + 5]
                if rest.startswith("else") or rest[:1] in (".", "?", ";", ")", ",") or rest.startswith("as "):
                    pass
                else:
                    return k + 1
        elif ch == ";" and depth == 0:
            return k + 1
        k += 1
    return n


def build_block(src, selector, rx, opts, sections, emitter):
    import extract as X
    start, ob, end, kind, hdr = src.locate_fn(selector)
    if ob < 0:
        raise X.ExtractError(f"{selector}: no body")
    body_lo, body_hi = ob + 1, end - 1
    m = re.search(rx[0], src.masked[body_lo:body_hi])
    if not m:
        # allow the start regex to match unmasked text too (string contents are blanked in masked text)
        m = re.search(rx[0], src.text[body_lo:body_hi])
    if not m:
        raise X.ExtractError(f"{selector}: block start /{rx[0]}/ not found (lost anchor)")
    bstart = line_start(src.text, body_lo + m.start())
    # skip leading whitespace
    k = bstart
    while src.masked[k] in " \t":
        k += 1
    nst = int(rx[1])
    pos = k
    for _ in range(nst):
        while pos < body_hi and src.masked[pos] in " \t\n":
            pos += 1
        e = statement_end(src.masked, pos)
        if e <= pos:
            raise X.ExtractError(f"{selector}: block has fewer than {nst} statements (lost anchor)")
        pos = e
    bend = pos
    raw = src.text[bstart:bend]
    first_line = line_of(src.text, bstart)
    sha = hashlib.sha256(raw.encode()).hexdigest()
    text = X.strip_attrs_and_docs(raw)
    applied = []
    for r in X.ALWAYS:
        text = r(text, applied)
    for rn in opts.get("rules", []):
        rname, _, rarg = rn.partition(":")
        if rname not in X.RULES:
            raise X.ExtractError(f"unknown rule {rn}")
        text = X.RULES[rname](text, applied, rarg) if rarg else X.RULES[rname](text, applied)
    if text.count("\n") != raw.count("\n"):
        raise X.ExtractError(f"{selector}: rewrite changed the line count of the block")
    m_text = mask(text)
    sig = sections.get("sig")
    if not sig:
        raise X.ExtractError("block without //@sig")
    inserts = {}

    def add_insert(p, s):
        inserts.setdefault(p, []).append(s)

    lps = X.loops_in(m_text, 0, len(m_text))
    for key, val in sections.items():
        if key.startswith("loop ") or key.startswith("loop? "):
            optional = key.startswith("loop? ")
            spec_ = key.split(None, 1)[1].strip()
            rm_ = re.match(r"/(.*)/\s*(\d+)?$", spec_)
            if rm_:
                kk = int(rm_.group(2) or 1)
                hits = [lp for lp in lps if re.search(rm_.group(1), m_text[lp[0]:lp[1]])]
                if len(hits) < kk:
                    if optional:
                        continue
                    raise X.ExtractError(f"{selector} block: loop /{rm_.group(1)}/ #{kk} not found (lost anchor)")
                add_insert(hits[kk - 1][1], "\n" + val.rstrip("\n") + "\n")
                continue
            n = int(spec_)
            if n < 1 or n > len(lps):
                raise X.ExtractError(f"{selector} block: loop {n} not found ({len(lps)} loops) (lost anchor)")
            add_insert(lps[n - 1][1], "\n" + val.rstrip("\n") + "\n")
        elif key.startswith("hint "):
            hm = re.match(r"hint (before|after) /(.*)/\s*(\d+)?$", key)
            where, hrx, kk = hm.group(1), hm.group(2), int(hm.group(3) or 1)
            ms = list(re.finditer(hrx, m_text))
            if len(ms) < kk:
                raise X.ExtractError(f"{selector} block: hint anchor /{hrx}/ #{kk} not found (lost anchor)")
            add_insert(ms[kk - 1].start() if where == "before" else ms[kk - 1].end(), "\n" + val.rstrip("\n") + "\n")
    pieces = []
    last = 0
    for p in sorted(inserts):
        pieces.append((text[last:p], last))
        for s_ in inserts[p]:
            pieces.append((s_, None))
        last = p
    pieces.append((text[last:], last))
    out = [(sig.rstrip("\n") + "\n", None)]
    spec = sections.get("spec")
    if spec:
        out.append((spec.rstrip("\n") + "\n", None))
    out.append(("{\n", None))
    for seg, off in pieces:
        if off is None:
            out.append((seg, None))
        else:
            out.append((seg, (src.rel, first_line + text.count("\n", 0, off))))
    out.append(("\n", None))
    tail = sections.get("tail")
    if tail:
        out.append((tail.rstrip("\n") + "\n", None))
    out.append(("}", None))
    gen_start = len(emitter.lines)
    emitter.emit_mapped(out)
    name = opts.get("name", "block")
    emitter.items.append({
        "kind": "fn", "selector": f"{selector}#{name}", "name": name, "file": src.rel,
        "repo_lines": [first_line, first_line + raw.count("\n")],
        "gen_lines": [gen_start + 1, len(emitter.lines)],
        "sha256": sha, "rules": applied + ["block-extraction"], "has_requires": bool(spec and re.search(r"\brequires\b", spec)),
        "contract": bool(spec), "has_body": True, "block": True,
    })
