"""Block extraction: a contiguous statement range of a function body, copied verbatim (modulo the
enumerated rewrite rules) into a wrapper function whose signature is given in the unit template.

  //@block <repo-file> <fn-selector> /start-regex/ /N/ name=NAME [rules=..]
  //@sig
      pub fn NAME(&self, a: A, b: &B) -> (r: R)        <- wrapper signature: the free variables of the block
  //@spec / //@loop n / //@hint ..                       <- as for //@fn
  //@tail
      expr                                               <- optional tail expression (value of the wrapper)
  //@end

The block starts at the first match of start-regex inside the function's body and spans N consecutive
statements at that nesting depth (second /../ is the statement count).
"""
import hashlib
import re

from rustlex import line_of, line_start, mask, match_close, next_body_brace


def statement_end(m_text, start):
    """offset just past the statement starting at `start` (same nesting depth)."""
    depth = 0
    k = start
    n = len(m_text)
    while k < n:
        ch = m_text[k]
        if ch in "([{":
            depth += 1
        elif ch in ")]}":
            depth -= 1
            if depth < 0:
                return k  # enclosing block ends
            if depth == 0 and ch == "}":
                # block-like statement ends here unless it continues (else / method chain / ; / ?)
                j = k + 1
                while j < n and m_text[j] in " \t\n":
                    j += 1
                rest = m_text[j:j + 5]
                if rest.startswith("else") or rest[:1] in (".", "?", ";", ")", ",") or rest.startswith("as "):
                    pass
                else:
                    return k + 1
        elif ch == ";" and depth == 0:
            return k + 1
        k += 1
    return n


def statement_range(src, selector, body_lo, body_hi, rx):
    """(start, end) offsets of the rx[1] consecutive statements starting at the first match of rx[0]."""
    import extract as X
    m = re.search(rx[0], src.masked[body_lo:body_hi])
    if not m:
        # allow the start regex to match unmasked text too (string contents are blanked in masked text)
        m = re.search(rx[0], src.text[body_lo:body_hi])
    if not m:
        raise X.ExtractError(f"{selector}: block start /{rx[0]}/ not found (lost anchor)")
    bstart = line_start(src.text, body_lo + m.start())
    # skip leading whitespace
    k = bstart
    while src.masked[k] in " \t":
        k += 1
    pos = k
    if re.fullmatch(r"\d+", rx[1]):
        nst = int(rx[1])
        for _ in range(nst):
            while pos < body_hi and src.masked[pos] in " \t\n":
                pos += 1
            e = statement_end(src.masked, pos)
            if e <= pos:
                raise X.ExtractError(f"{selector}: block has fewer than {nst} statements (lost anchor)")
            pos = e
        return bstart, pos
    # end regex: the block runs through the first statement (at this nesting depth) that matches it; with a
    # leading `<` the block ends just BEFORE that statement (exclusive end)
    excl = rx[1].startswith("<")
    erx = rx[1][1:] if excl else rx[1]
    first = True
    for _ in range(400):
        prev_end = pos
        while pos < body_hi and src.masked[pos] in " \t\n":
            pos += 1
        e = statement_end(src.masked, pos)
        if e <= pos or pos >= body_hi:
            break
        if (not (excl and first)) and (re.search(erx, src.masked[pos:e]) or re.search(erx, src.text[pos:e])):
            return (bstart, prev_end) if excl else (bstart, e)
        first = False
        pos = e
    raise X.ExtractError(f"{selector}: block end /{rx[1]}/ not found after /{rx[0]}/ (lost anchor)")


def build_block(src, selector, rx, opts, sections, emitter):
    import extract as X
    X.CURRENT_FILE[0] = src.rel
    start, ob, end, kind, hdr = src.locate_fn(selector)
    if ob < 0:
        raise X.ExtractError(f"{selector}: no body")
    body_lo, body_hi = ob + 1, end - 1
    bstart, bend = statement_range(src, selector, body_lo, body_hi, rx)
    raw = src.text[bstart:bend]
    first_line = line_of(src.text, bstart)
    sha = hashlib.sha256(raw.encode()).hexdigest()
    if opts.get("stub"):
        # `stub=UNIT`: the statement range is located mechanically (same anchors as in unit UNIT, where the block is
        # verified), but only its wrapper's contract is emitted here -- an ASSUMED contract (external_body), so that a
        # function of this unit can be composed over it with //@callblock.  Listed as trusted.
        sig = sections.get("sig")
        spec = sections.get("spec") or ""
        if not sig:
            raise X.ExtractError("block without //@sig")
        gen_start = len(emitter.lines)
        emitter.emit_mapped([("#[verifier::external_body]\n", None), (sig.rstrip("\n") + "\n", None), (spec.rstrip("\n") + "\n", None),
                             ("{ unimplemented!() }", None)])
        name = opts.get("name", "block")
        emitter.items.append({
            "kind": "fn", "selector": f"{selector}#{name}", "name": name, "file": src.rel,
            "repo_lines": [first_line, first_line + raw.count("\n")], "gen_lines": [gen_start + 1, len(emitter.lines)],
            "sha256": sha, "rules": [f"block-stub(verified in unit {opts['stub']})"], "has_requires": bool(re.search(r"\brequires\b", spec)),
            "contract": bool(spec), "has_body": False, "block": True, "stub": True, "repo_span": [bstart, bend],
        })
        return
    raw_cb, cb_applied = X.apply_callblocks(src, selector, bstart, bend, raw, sections, emitter)
    text = X.strip_attrs_and_docs(raw_cb)
    applied = list(cb_applied)
    for r in X.ALWAYS:
        text = r(text, applied)
    for rn in opts.get("rules", []):
        rname, _, rarg = rn.partition(":")
        if rname not in X.RULES:
            raise X.ExtractError(f"unknown rule {rn}")
        text = X.RULES[rname](text, applied, rarg) if rarg else X.RULES[rname](text, applied)
    if text.count("\n") != raw.count("\n"):
        raise X.ExtractError(f"{selector}: rewrite changed the line count of the block")
    m_text = mask(text)
    sig = sections.get("sig")
    if not sig:
        raise X.ExtractError("block without //@sig")
    inserts = {}

    def add_insert(p, s):
        inserts.setdefault(p, []).append(s)

    lps = X.loops_in(m_text, 0, len(m_text))
    for key, val in sections.items():
        if key.startswith("loop ") or key.startswith("loop? "):
            optional = key.startswith("loop? ")
            spec_ = key.split(None, 1)[1].strip()
            rm_ = re.match(r"/(.*)/\s*(\d+)?$", spec_)
            if rm_:
                kk = int(rm_.group(2) or 1)
                hits = [lp for lp in lps if re.search(rm_.group(1), m_text[lp[0]:lp[1]])]
                if len(hits) < kk:
                    if optional:
                        continue
                    raise X.ExtractError(f"{selector} block: loop /{rm_.group(1)}/ #{kk} not found (lost anchor)")
                add_insert(hits[kk - 1][1], "\n" + val.rstrip("\n") + "\n")
                continue
            n = int(spec_)
            if n < 1 or n > len(lps):
                raise X.ExtractError(f"{selector} block: loop {n} not found ({len(lps)} loops) (lost anchor)")
            add_insert(lps[n - 1][1], "\n" + val.rstrip("\n") + "\n")
        elif key.strip() == "hint start":
            add_insert(0, val.rstrip("\n") + "\n")
        elif re.match(r"hint\??\s+(afterloop|endloop|startloop) ", key):
            hm = re.match(r"hint\??\s+(afterloop|endloop|startloop) /(.*)/\s*(\d+)?$", key)
            kk = int(hm.group(3) or 1)
            hits = [lp for lp in lps if re.search(hm.group(2), m_text[lp[0]:lp[1]])]
            if len(hits) < kk and key.startswith("hint?"):
                continue
            if len(hits) < kk:
                raise X.ExtractError(f"{selector} block: loop /{hm.group(2)}/ #{kk} not found (lost anchor)")
            cb_ = match_close(m_text, hits[kk - 1][1])
            add_insert(cb_ + 1 if hm.group(1) == "afterloop" else (hits[kk - 1][1] + 1 if hm.group(1) == "startloop" else cb_), "\n" + val.rstrip("\n") + "\n")
        elif key.startswith("hint ") or key.startswith("hint? "):
            # `hint?`: the hint is skipped when its anchor is absent (a proof step for a statement that may be gone)
            hm = re.match(r"hint\??\s+(before|after) /(.*)/\s*(\d+)?$", key)
            where, hrx, kk = hm.group(1), hm.group(2), int(hm.group(3) or 1)
            ms = list(re.finditer(hrx, m_text))
            if len(ms) < kk and key.startswith("hint? "):
                continue
            if len(ms) < kk:
                raise X.ExtractError(f"{selector} block: hint anchor /{hrx}/ #{kk} not found (lost anchor)")
            add_insert(ms[kk - 1].start() if where == "before" else ms[kk - 1].end(), "\n" + val.rstrip("\n") + "\n")
    pieces = []
    last = 0
    for p in sorted(inserts):
        pieces.append((text[last:p], last))
        for s_ in inserts[p]:
            pieces.append((s_, None))
        last = p
    pieces.append((text[last:], last))
    out = [(sig.rstrip("\n") + "\n", None)]
    spec = sections.get("spec")
    if spec:
        out.append((spec.rstrip("\n") + "\n", None))
    out.append(("{\n", None))
    for seg, off in pieces:
        if off is None:
            out.append((seg, None))
        else:
            out.append((seg, (src.rel, first_line + text.count("\n", 0, off))))
    out.append(("\n", None))
    tail = sections.get("tail")
    if tail:
        out.append((tail.rstrip("\n") + "\n", None))
    out.append(("}", None))
    gen_start = len(emitter.lines)
    emitter.emit_mapped(out)
    name = opts.get("name", "block")
    emitter.items.append({
        "kind": "fn", "selector": f"{selector}#{name}", "name": name, "file": src.rel,
        "repo_lines": [first_line, first_line + raw.count("\n")],
        "gen_lines": [gen_start + 1, len(emitter.lines)],
        "sha256": sha, "rules": applied + ["block-extraction"], "has_requires": bool(spec and re.search(r"\brequires\b", spec)),
        "contract": bool(spec), "has_body": True, "block": True, "repo_span": [bstart, bend],
    })


def build_compose(src, selector, opts, sections, emitter):
    """//@compose <file> <fn> blocks=a,b,..   with sections sig, spec, glue, tail and any number of
    `skip /regex/ N` sections (content: why those statements are not under contract here).

    Emits a function (signature, contract, the hand-written glue that calls the block wrappers in order, tail) and
    CHECKS mechanically that the named blocks and the skipped statement ranges tile the body of the real function:
    in order, without overlap, with nothing but whitespace and comments between them, and with the function's
    tail expression equal to the //@tail section.  The parameter list of //@sig must be the real one (modulo `mut`)."""
    import extract as X
    start, ob, end, kind, hdr = src.locate_fn(selector)
    if ob < 0:
        raise X.ExtractError(f"{selector}: no body")
    body_lo, body_hi = ob + 1, end - 1
    ranges = []
    for bn in opts.get("blocks", "").split(","):
        its = [it for it in emitter.items if it.get("block") and it["name"] == bn and it["file"] == src.rel]
        if not its:
            raise X.ExtractError(f"compose {selector}: block {bn} not extracted before the compose directive")
        ranges.append((its[-1]["repo_span"][0], its[-1]["repo_span"][1], "block " + bn))
    skipped = []
    for key, val in sections.items():
        if key.startswith("skip "):
            rm_ = re.match(r"skip /(.*?)/\s*(\d+)$", key) or re.match(r"skip /(.*?)/\s+/(.*)/$", key)
            if not rm_:
                raise X.ExtractError(f"compose {selector}: malformed skip section")
            a, b = statement_range(src, selector, body_lo, body_hi, (rm_.group(1), rm_.group(2)))
            ranges.append((a, b, "skip"))
            skipped.append(f"{src.rel}:{line_of(src.text, a)}-{line_of(src.text, b)}: " + " ".join(val.split()))
    ranges.sort()
    pos = body_lo
    for a, b, what in ranges:
        if a < pos:
            raise X.ExtractError(f"compose {selector}: {what} overlaps the previous range")
        gap = src.masked[pos:a].strip()
        if gap:
            raise X.ExtractError(f"compose {selector}: statements outside every block before {what}: {gap[:80]!r} (construct outside the composed subset)")
        pos = b
    norm = lambda t: "".join(t.split())
    rest = norm(src.masked[pos:body_hi])
    tail = sections.get("tail", "")
    if rest != norm(mask(tail)):
        raise X.ExtractError(f"compose {selector}: tail of the function {rest[:80]!r} differs from //@tail")
    sig = sections.get("sig")
    if not sig:
        raise X.ExtractError("compose without //@sig")
    # parameter list: the real one modulo `mut` and visibility
    real_params = norm(re.sub(r"\bmut\s+(?=\w+\s*:)", "", src.masked[src.masked.index("(", start):ob]).split("->")[0])
    sig_params = norm(mask(sig)[mask(sig).index("("):].split("->")[0])
    real_params = real_params.replace(",)", ")")
    sig_params = sig_params.replace(",)", ")")
    if real_params != sig_params:
        raise X.ExtractError(f"compose {selector}: parameter list {sig_params!r} differs from the real one {real_params!r}")
    raw = src.text[start:end]
    out = [(sig.rstrip("\n") + "\n", None)]
    spec = sections.get("spec")
    if spec:
        out.append((spec.rstrip("\n") + "\n", None))
    out.append(("{\n", None))
    out.append((sections.get("glue", "").rstrip("\n") + "\n", None))
    out.append((tail.rstrip("\n") + "\n", None))
    out.append(("}", None))
    gen_start = len(emitter.lines)
    emitter.emit_mapped(out)
    name = opts.get("name", selector.split("::")[-1])
    emitter.items.append({
        "kind": "fn", "selector": f"{selector}#compose", "name": name, "file": src.rel,
        "repo_lines": [line_of(src.text, start), line_of(src.text, end)],
        "gen_lines": [gen_start + 1, len(emitter.lines)],
        "sha256": hashlib.sha256(raw.encode()).hexdigest(), "rules": ["compose(" + opts.get("blocks", "") + ")"] + ["not-under-contract: " + s_ for s_ in skipped],
        "has_requires": bool(spec and re.search(r"\brequires\b", spec)),
        "contract": bool(spec), "has_body": True, "compose": True,
    })
