#!/bin/bash
# usage: tools/seed_eval.sh <seed-id> <property> <outdir-with-patch.diff> <demo-test-file-or-diff> [test-name-filter]
# Confirms a seeded change in a fresh scratch worktree (existing suite passes, demo fails with / passes without),
# then runs ./check <property> against it applied to /repo and undoes it.
set -u
ID=$1; PROP=$2; OUT=$3; DEMO=$4
WT=/tmp/confirm-$ID
cd /repo && git worktree add -q $WT HEAD || exit 3
cd $WT
export CARGO_TARGET_DIR=$WT/target
if [[ "$DEMO" == *.diff ]]; then git apply $DEMO || { echo "demo diff does not apply"; exit 3; }; else cp $DEMO tests/; fi
DEMONAME=$(basename $DEMO .rs)
echo "== demo on unmodified source"
if [[ "$DEMO" == *.diff ]]; then cargo test --offline --workspace 2>&1 | grep -E "^test result|FAILED|failed" | head -8; else cargo test --offline --test $DEMONAME 2>&1 | grep -E "^test result|FAILED|failed" | head -5; fi
git apply $OUT/patch.diff || { echo "patch does not apply"; exit 3; }
echo "== demo with the change"
if [[ "$DEMO" == *.diff ]]; then cargo test --offline --workspace 2>&1 | grep -E "^test result|FAILED|failed" | head -12; else cargo test --offline --test $DEMONAME 2>&1 | grep -E "^test result|FAILED|failed" | head -8; fi
echo "== existing suite with the change (demo removed)"
if [[ "$DEMO" == *.diff ]]; then git apply -R $DEMO; else rm tests/$(basename $DEMO); fi
cargo test --offline --workspace 2>&1 | grep -E "^test result" | awk '{p+=$4; f+=$6} END {print "passed="p" failed="f}'
cd /repo && git worktree remove --force $WT
echo "== ./check $PROP on /repo with the change applied"
git -C /repo apply $OUT/patch.diff && (cd /verif && VERIF_SCRATCH_EVIDENCE=/tmp/verif-seed-evidence ./check $PROP; echo "check exit=$?"); git -C /repo checkout -- .
git -C /repo status --short | head -3
