// ---- trusted contracts on std functions (assume_specification), part 2
pub assume_specification[ i32::unsigned_abs ](x: i32) -> (r: u32)
    ensures r == (if x < 0 { -(x as int) } else { x as int });

pub assume_specification<T, A: core::alloc::Allocator, F: FnMut() -> T>[ Vec::<T, A>::resize_with ](v: &mut Vec<T, A>, new_len: usize, f: F)
    requires forall|u: ()| #[trigger] f.requires(u),
    ensures
        final(v)@.len() == new_len,
        forall|i: int| 0 <= i < new_len && i < old(v)@.len() ==> final(v)@[i] == old(v)@[i],
        forall|i: int| old(v)@.len() <= i < new_len ==> f.ensures((), #[trigger] final(v)@[i]);

pub assume_specification<'a, T: Copy>[ Option::<&'a T>::copied ](o: Option<&'a T>) -> (r: Option<T>)
    ensures r == (match o { Some(v) => Some(*v), None => None::<T> });
