// ---- opaque stand-in for indexmap::IndexMap as far as the encoder uses it (insertion order is irrelevant to
// the contracts): spec_get = contents
#[verifier::external_body]
#[verifier::reject_recursive_types(K)]
#[verifier::reject_recursive_types(V)]
#[verifier::reject_recursive_types(S)]
pub struct IndexMap<K, V, S = ()> { _p: core::marker::PhantomData<(K, V, S)> }
impl<K, V, S> IndexMap<K, V, S> {
    pub uninterp spec fn spec_get(&self, k: K) -> Option<V>;
}
/// `M.entry(K).or_default().push(X)` (rule R16push): documented semantics of the entry API — the value for K is
/// created empty if absent, X is appended to it, every other key is untouched
#[verifier::external_body]
pub fn ventry_push<K, T, S>(m: &mut IndexMap<K, Vec<T>, S>, k: K, x: T)
    ensures
        final(m).spec_get(k) is Some,
        final(m).spec_get(k).unwrap()@ == (match old(m).spec_get(k) { Some(v) => v@, None => Seq::<T>::empty() }).push(x),
        forall|k2: K| k2 != k ==> #[trigger] final(m).spec_get(k2) == old(m).spec_get(k2),
{ unimplemented!() }
impl<K, V, S> IndexMap<K, V, S> {
    /// the entries in insertion (= index) order; keys are pairwise distinct and `spec_get` is the lookup in it
    pub uninterp spec fn entries(&self) -> Seq<(K, V)>;
    /// documented IndexMap semantics (trusted): keys are unique, get(k) finds the entry with key k
    #[verifier::external_body]
    pub proof fn axiom_entries(&self)
        ensures
            forall|i: int, j: int| 0 <= i < j < self.entries().len() ==> (#[trigger] self.entries()[i]).0 != (#[trigger] self.entries()[j]).0,
            forall|i: int| 0 <= i < self.entries().len() ==> self.spec_get((#[trigger] self.entries()[i]).0) == Some(self.entries()[i].1),
            forall|k: K| (#[trigger] self.spec_get(k)) is Some ==> exists|i: int| 0 <= i < self.entries().len() && (#[trigger] self.entries()[i]).0 == k,
    { }
    #[verifier::external_body]
    pub fn len(&self) -> (r: usize)
        ensures r == self.entries().len(),
    { unimplemented!() }
    /// IndexMap::get_index: the i-th entry in insertion order (IndexMap::iter yields exactly these, in this order)
    #[verifier::external_body]
    pub fn get_index(&self, i: usize) -> (r: Option<(&K, &V)>)
        ensures
            i < self.entries().len() ==> r is Some && *r.unwrap().0 == self.entries()[i as int].0 && *r.unwrap().1 == self.entries()[i as int].1,
            i >= self.entries().len() ==> r is None,
    { unimplemented!() }
}
