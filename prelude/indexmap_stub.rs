// ---- opaque stand-in for indexmap::IndexMap as far as the encoder uses it (insertion order is irrelevant to
// the contracts): spec_get = contents
#[verifier::external_body]
#[verifier::reject_recursive_types(K)]
#[verifier::reject_recursive_types(V)]
#[verifier::reject_recursive_types(S)]
pub struct IndexMap<K, V, S = ()> { _p: core::marker::PhantomData<(K, V, S)> }
impl<K, V, S> IndexMap<K, V, S> {
    pub uninterp spec fn spec_get(&self, k: K) -> Option<V>;
}
/// `M.entry(K).or_default().push(X)` (rule R16push): documented semantics of the entry API — the value for K is
/// created empty if absent, X is appended to it, every other key is untouched
#[verifier::external_body]
pub fn ventry_push<K, T, S>(m: &mut IndexMap<K, Vec<T>, S>, k: K, x: T)
    ensures
        final(m).spec_get(k) is Some,
        final(m).spec_get(k).unwrap()@ == (match old(m).spec_get(k) { Some(v) => v@, None => Seq::<T>::empty() }).push(x),
        forall|k2: K| k2 != k ==> #[trigger] final(m).spec_get(k2) == old(m).spec_get(k2),
{ unimplemented!() }
