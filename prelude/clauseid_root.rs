impl ClauseId {
    /// ClauseId::install_root() is `Self(NonZeroU32::new_unchecked(1))`; Kani clause_id_roundtrip: its index is 0
    #[verifier::external_body]
    pub fn install_root() -> (r: ClauseId)
        ensures r.idx() == 0,
    { unimplemented!() }
}
