// `E[A..].iter().next()` (rule R8first): first element at or after A.  Verified helper; its precondition is
// the panic condition of the range slice.
pub fn vfirst_from<T>(v: &Vec<T>, a: usize) -> (r: Option<&T>)
    requires a <= v@.len(),
    ensures r == (if a < v@.len() { Some(&v@[a as int]) } else { None::<&T> }),
{
    if a < v.len() { Some(&v[a]) } else { None }
}
