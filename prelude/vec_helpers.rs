// `E[A..].iter().next()` (rule R8first): first element at or after A.  Verified helper; its precondition is
// the panic condition of the range slice.
pub fn vfirst_from<T>(v: &Vec<T>, a: usize) -> (r: Option<&T>)
    requires a <= v@.len(),
    ensures r == (if a < v@.len() { Some(&v@[a as int]) } else { None::<&T> }),
{
    if a < v.len() { Some(&v[a]) } else { None }
}

// `v.into_iter().next()` (rule R8intonext) for a Vec of Copy elements: the first element, if any.  Verified helper.
pub fn vinto_first<T: Copy>(v: Vec<T>) -> (r: Option<T>)
    ensures r == (if v@.len() > 0 { Some(v@[0]) } else { None::<T> }),
{
    if v.len() > 0 { Some(v[0]) } else { None }
}

/// `slice.iter().copied().last()` (rule R7stackrev): the last element by value, None for an empty vector
pub fn vlast_copied<T: Copy>(v: &Vec<T>) -> (r: Option<T>)
    ensures r == (if v@.len() == 0 { None } else { Some(v@[v@.len() - 1]) }),
{
    if v.len() == 0 { None } else { Some(v[v.len() - 1]) }
}

/// `iter.peek().copied()` on a not yet consumed sequence (rule R22): its first element by value
pub fn vfirst_copied<T: Copy>(v: &Vec<T>) -> (r: Option<T>)
    ensures r == (if v@.len() == 0 { None } else { Some(v@[0]) }),
{
    if v.len() == 0 { None } else { Some(v[0]) }
}

/// concatenation of the inner vectors
pub open spec fn flat_seq<T>(vss: Seq<Vec<T>>) -> Seq<T>
    decreases vss.len(),
{
    if vss.len() == 0 { Seq::<T>::empty() } else { flat_seq(vss.drop_last()) + vss.last()@ }
}
/// `X.iter().flatten().copied()` handed over as a sequence (rule R22flat)
pub fn vflatten_copied<T: Copy>(v: &Vec<Vec<T>>) -> (r: Vec<T>)
    ensures r@ == flat_seq(v@),
{
    let mut out: Vec<T> = Vec::new();
    let mut i: usize = 0;
    while i < v.len()
        invariant i <= v@.len(), out@ == flat_seq(v@.take(i as int)),
        decreases v@.len() - i,
    {
        let mut j: usize = 0;
        let ghost base = out@;
        while j < v[i].len()
            invariant i < v@.len(), j <= v@[i as int]@.len(), out@ == base + v@[i as int]@.take(j as int),
            decreases v@[i as int]@.len() - j,
        {
            out.push(v[i][j]);
            proof { assert(v@[i as int]@.take(j as int + 1) =~= v@[i as int]@.take(j as int).push(v@[i as int]@[j as int])); }
            j += 1;
        }
        proof {
            assert(v@[i as int]@.take(j as int) =~= v@[i as int]@);
            assert(v@.take(i as int + 1).drop_last() =~= v@.take(i as int));
            assert(v@.take(i as int + 1).last() == v@[i as int]);
        }
        i += 1;
    }
    proof { assert(v@.take(i as int) =~= v@); }
    out
}
