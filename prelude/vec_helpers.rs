// `E[A..].iter().next()` (rule R8first): first element at or after A.  Verified helper; its precondition is
// the panic condition of the range slice.
pub fn vfirst_from<T>(v: &Vec<T>, a: usize) -> (r: Option<&T>)
    requires a <= v@.len(),
    ensures r == (if a < v@.len() { Some(&v@[a as int]) } else { None::<&T> }),
{
    if a < v.len() { Some(&v[a]) } else { None }
}

// `v.into_iter().next()` (rule R8intonext) for a Vec of Copy elements: the first element, if any.  Verified helper.
pub fn vinto_first<T: Copy>(v: Vec<T>) -> (r: Option<T>)
    ensures r == (if v@.len() > 0 { Some(v@[0]) } else { None::<T> }),
{
    if v.len() > 0 { Some(v[0]) } else { None }
}

/// `slice.iter().copied().last()` (rule R7stackrev): the last element by value, None for an empty vector
pub fn vlast_copied<T: Copy>(v: &Vec<T>) -> (r: Option<T>)
    ensures r == (if v@.len() == 0 { None } else { Some(v@[v@.len() - 1]) }),
{
    if v.len() == 0 { None } else { Some(v[v.len() - 1]) }
}
