// rule R13: an arbitrary value of the inferred type (over-approximates an expression outside the subset). TRUSTED.
#[verifier::external_body]
pub fn vhavoc<T>() -> T { unimplemented!() }
