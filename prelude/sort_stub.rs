// rule R41: std's stable slice::sort_by_key with precomputed u32 keys. TRUSTED stand-in.
/// `out` is the stable rearrangement of `inp` by `keys` (keys[i] is the key of inp[i]): p is a permutation of 0..n,
/// out[i] == inp[p[i]], keys are non-decreasing along p and equal keys keep their original order
pub open spec fn stable_sorted_by<T>(inp: Seq<T>, keys: Seq<u32>, out: Seq<T>, p: Seq<int>) -> bool {
    &&& p.len() == inp.len() && out.len() == inp.len() && keys.len() == inp.len()
    &&& forall|i: int| 0 <= i < p.len() ==> 0 <= #[trigger] p[i] < inp.len()
    &&& forall|i: int, j: int| 0 <= i < j < p.len() ==> #[trigger] p[i] != #[trigger] p[j]
    &&& forall|i: int| 0 <= i < p.len() ==> #[trigger] out[i] == inp[p[i]]
    &&& forall|i: int, j: int| 0 <= i < j < p.len() ==> keys[#[trigger] p[i]] < keys[#[trigger] p[j]] || (keys[p[i]] == keys[p[j]] && p[i] < p[j])
}
#[verifier::external_body]
pub fn vsort_by_keys<T: Copy>(xs: &mut [T], keys: &Vec<u32>)
    requires keys@.len() == old(xs)@.len(),
    ensures exists|p: Seq<int>| #[trigger] stable_sorted_by(old(xs)@, keys@, final(xs)@, p),
{ unimplemented!() }
