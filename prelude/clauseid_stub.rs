//@include prelude/clauseid_arena.rs
//@include prelude/literal_arena.rs
