// ---- ArenaId for ClauseId and for the Literal stand-in: NonZeroU32 code Verus cannot see; contracts proved on
// the real code by Kani (clause_id_roundtrip, lit_from_to_usize, lit_new_roundtrip; full domain, loop-free).
impl ArenaId for ClauseId {
    uninterp spec fn idx(self) -> nat;
    open spec fn max_index() -> nat { (u32::MAX - 1) as nat }
    proof fn lemma_max_index() {}
    #[verifier::external_body]
    fn from_usize(x: usize) -> (r: Self) { unimplemented!() }
    #[verifier::external_body]
    fn to_usize(self) -> (r: usize) { unimplemented!() }
}
pub broadcast proof fn axiom_clause_id_ext(a: ClauseId, b: ClauseId)
    ensures #[trigger] a.idx() == #[trigger] b.idx() ==> a == b,
{ admit(); }

