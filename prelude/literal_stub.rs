// ---- stand-in for resolvo::solver::clause::Literal (NonZeroU32 bit encoding).  Its contracts are NOT trusted:
// each is proved on the real code by the loop-free, full-domain Kani harness set `lit` (kani/verif_kani.rs:
// lit_new_roundtrip, lit_positive_negative, lit_eq_iff_same_variable_and_polarity); `eval` is the real function
// verified by Verus on top of variable()/negate().  ./check runs those harnesses whenever a unit uses this stand-in.
#[verifier::external_body]
#[derive(Copy, Clone)]
pub struct Literal { _p: u32 }

impl Literal {
    /// index of the literal's variable
    pub uninterp spec fn var(self) -> nat;
    /// true for a negated literal (¬A)
    pub uninterp spec fn neg(self) -> bool;
    /// truth value of the literal under a raw assignment (0 = unassigned, >0 true, <0 false)
    pub open spec fn value_under(self, raw: int) -> Option<bool> {
        match dl_value(raw) { None => None, Some(v) => Some(v != self.neg()) }
    }
}

/// Kani lit_eq_iff_same_variable_and_polarity: a literal is determined by (variable, polarity)
pub broadcast proof fn axiom_literal_ext(a: Literal, b: Literal)
    ensures (#[trigger] a.var() == #[trigger] b.var() && a.neg() == b.neg()) ==> a == b,
{ admit(); }

/// Kani lit_new_roundtrip: Literal::new is total on the encodable domain, so every (variable, polarity) has a literal
pub proof fn axiom_literal_exists(v: nat, neg: bool)
    requires v < MAX_VAR,
    ensures exists|l: Literal| #[trigger] l.var() == v && l.neg() == neg,
{ admit(); }

impl vstd::std_specs::cmp::PartialEqSpecImpl for Literal {
    open spec fn obeys_eq_spec() -> bool { true }
    open spec fn eq_spec(&self, other: &Literal) -> bool { self.var() == other.var() && self.neg() == other.neg() }
}
impl PartialEq for Literal {
    #[verifier::external_body]
    fn eq(&self, other: &Literal) -> (r: bool) { unimplemented!() }
}

/// largest variable index for which the u32 encoding ((idx << 1) | neg) + 1 does not overflow
pub spec const MAX_VAR: nat = 0x7fff_fffe;

impl Literal {
    #[verifier::external_body]
    pub fn new(variable: VariableId, negate: bool) -> (r: Literal)
        requires variable.idx() < MAX_VAR,
        ensures r.var() == variable.idx(), r.neg() == negate,
    { unimplemented!() }
    #[verifier::external_body]
    pub fn negate(&self) -> (r: bool)
        ensures r == self.neg(),
    { unimplemented!() }
    #[verifier::external_body]
    pub fn satisfying_value(self) -> (r: bool)
        ensures r == !self.neg(),
    { unimplemented!() }
    #[verifier::external_body]
    pub fn variable(self) -> (r: VariableId)
        ensures r.idx() == self.var(),
    { unimplemented!() }
    // the real Literal::eval, verified on top of variable()/negate() (Kani, full domain) and DecisionMap::value (unit dec)
    //@fn src/solver/clause.rs Literal::eval ret=r
    //@spec
        ensures r == self.value_under(decision_map.raw(self.var() as int)),
    //@end
}
