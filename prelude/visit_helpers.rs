// ---- rule R20: the literal sequence a clause visitor sees.  Clause::visit_literals is
// `self.try_fold_literals(learnt, reqs, (), |_, lit| { visit(lit); ControlFlow::Continue(()) })` and
// try_fold_literals is VERIFIED (unit prop) to fold over exactly lits_of(clause) in order and to be panic free
// under clause_ok; this helper returns that sequence so that the visitor closure can be checked as a loop body.
#[verifier::external_body]
pub fn vclause_literals(c: &Clause, learnt: &LearntClauses, reqs: &ReqCandidates) -> (r: Vec<Literal>)
    requires clause_ok(*c, *learnt, *reqs),
    ensures r@ == lits_of(*c, *learnt, *reqs),
{ unimplemented!() }

/// derive(Hash, PartialEq, Eq) on the newtype VariableId(u32): hashing and equality agree
pub broadcast proof fn axiom_variable_id_key_model()
    ensures #[trigger] vstd::std_specs::hash::obeys_key_model::<VariableId>(),
{ admit(); }
