// ---- equality / hashing of ClauseId (derived on a NonZeroU32 newtype): Kani clause_id_eq (full domain)
impl vstd::std_specs::cmp::PartialEqSpecImpl for ClauseId {
    open spec fn obeys_eq_spec() -> bool { true }
    open spec fn eq_spec(&self, other: &ClauseId) -> bool { self.idx() == other.idx() }
}
impl PartialEq for ClauseId {
    #[verifier::external_body]
    fn eq(&self, other: &ClauseId) -> (r: bool) { unimplemented!() }
}
impl Eq for ClauseId {}
impl core::hash::Hash for ClauseId {
    #[verifier::external_body]
    fn hash<H: core::hash::Hasher>(&self, state: &mut H) { unimplemented!() }
}
/// derived Eq + Hash on a newtype obey the hash-table key model (assumption, as for every std key type)
pub broadcast proof fn axiom_clause_id_key_model()
    ensures #[trigger] vstd::std_specs::hash::obeys_key_model::<ClauseId>(),
{ admit(); }

// `X.contains(&Y)` (rule R8contains): verified linear search
pub fn vcontains_clause(v: &Vec<ClauseId>, y: ClauseId) -> (r: bool)
    ensures r == v@.contains(y),
{
    let mut i: usize = 0;
    while i < v.len()
        invariant i <= v@.len(), forall|j: int| 0 <= j < i ==> v@[j] != y,
        decreases v@.len() - i,
    {
        if v[i] == y {
            proof { broadcast use axiom_clause_id_ext; }
            return true;
        }
        i += 1;
    }
    false
}
