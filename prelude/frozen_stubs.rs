// ---- trusted read/append stand-ins for the insert-only containers of SolverCache.  Interior mutability is
// invisible to contracts (DESIGN §1): `spec_get` / `spec_index` describe the (append-only, hence stable)
// contents; mutators under `&self` are opaque calls.
#[verifier::external_body]
#[verifier::reject_recursive_types(K)]
#[verifier::reject_recursive_types(V)]
pub struct FrozenCopyMap<K, V> { _p: core::marker::PhantomData<(K, V)> }
impl<K, V> FrozenCopyMap<K, V> {
    pub uninterp spec fn spec_get(&self, k: K) -> Option<V>;
    #[verifier::external_body]
    pub fn get_copy(&self, k: &K) -> (r: Option<V>)
        ensures r == self.spec_get(*k),
    { unimplemented!() }
    /// opaque: the effect of inserting behind `&self` cannot be stated
    #[verifier::external_body]
    pub fn insert_copy(&self, k: K, v: V) -> (r: Option<V>)
    { unimplemented!() }
    /// FrozenCopyMap::insert_copy reached through a UNIQUE borrow of its owner (cell erasure, rule R12frozencopy): the effect
    /// is the one VERIFIED of the real function in unit pool under the same erasure -- HashMap::insert: (k, v) is stored
    /// (overwriting), every other key is untouched
    #[verifier::external_body]
    pub fn vinsert_copy_mut(&mut self, k: K, v: V) -> (r: Option<V>)
        ensures
            final(self).spec_get(k) == Some(v), r == old(self).spec_get(k),
            forall|k2: K| k2 != k ==> #[trigger] final(self).spec_get(k2) == old(self).spec_get(k2),
    { unimplemented!() }
}

#[verifier::external_body]
#[verifier::reject_recursive_types(TId)]
#[verifier::reject_recursive_types(TValue)]
pub struct Arena<TId, TValue> { _p: core::marker::PhantomData<(TId, TValue)> }
impl<TId, TValue> Arena<TId, TValue> {
    /// contents of the append-only arena (each id is written exactly once, so this is stable)
    pub uninterp spec fn spec_index(&self, id: TId) -> TValue;
    #[verifier::external_body]
    pub fn alloc(&self, value: TValue) -> (id: TId)
        ensures self.spec_index(id) == value,
    { unimplemented!() }
    /// `&arena[id]` (rule R8index)
    #[verifier::external_body]
    pub fn vindex(&self, id: TId) -> (r: &TValue)
        ensures *r == self.spec_index(id),
    { unimplemented!() }
}

/// elsa::FrozenMap: insert-only map handing out references to its (boxed, hence stable) values
#[verifier::external_body]
#[verifier::reject_recursive_types(K)]
#[verifier::reject_recursive_types(V)]
#[verifier::reject_recursive_types(S)]
pub struct FrozenMap<K, V, S = ()> { _p: core::marker::PhantomData<(K, V, S)> }
impl<K, V, S> FrozenMap<K, V, S> {
    pub uninterp spec fn spec_get(&self, k: K) -> Option<V>;
    #[verifier::external_body]
    pub fn get(&self, k: &K) -> (r: Option<&V>)
        ensures match r { Some(v) => self.spec_get(*k) == Some(*v), None => self.spec_get(*k) is None },
    { unimplemented!() }
    /// the effect of inserting behind `&self` cannot be stated; the returned reference is to the inserted value
    #[verifier::external_body]
    pub fn insert(&self, k: K, v: V) -> (r: &V)
        ensures *r == v,
    { unimplemented!() }
    /// FrozenMap::insert reached through a UNIQUE borrow of its owner (cell erasure as in rule R12: the sequential
    /// effect of elsa's `entry(k).or_insert(v)` -- an existing entry is kept, otherwise (k, v) is added; the aliasing
    /// question that interior mutability raises is thereby excluded)
    #[verifier::external_body]
    pub fn vinsert_mut(&mut self, k: K, v: V)
        ensures
            final(self).spec_get(k) == (if old(self).spec_get(k) is Some { old(self).spec_get(k) } else { Some(v) }),
            forall|k2: K| k2 != k ==> #[trigger] final(self).spec_get(k2) == old(self).spec_get(k2),
    { unimplemented!() }
    /// `map[&k]` (rule R8frozenindex): panics when the key is absent
    #[verifier::external_body]
    pub fn vindex(&self, k: &K) -> (r: &V)
        requires self.spec_get(*k) is Some,
        ensures *r == self.spec_get(*k).unwrap(),
    { unimplemented!() }
}
