// ---- trusted stand-in for indexmap::IndexSet<V>: an insertion-ordered set (sequence without duplicates).
#[verifier::external_body]
#[verifier::accept_recursive_types(V)]
pub struct IndexSet<V> { _p: core::marker::PhantomData<V> }

impl<V> View for IndexSet<V> {
    type V = Seq<V>;
    uninterp spec fn view(&self) -> Seq<V>;
}

pub broadcast proof fn axiom_indexset_no_duplicates<V>(s: &IndexSet<V>)
    ensures #[trigger] s@.no_duplicates(),
{ admit(); }

impl<V> IndexSet<V> {
    #[verifier::external_body]
    pub fn contains(&self, v: &V) -> (r: bool)
        ensures r == self@.contains(*v),
    { unimplemented!() }
    #[verifier::external_body]
    pub fn is_empty(&self) -> (r: bool)
        ensures r == (self@.len() == 0),
    { unimplemented!() }
    #[verifier::external_body]
    pub fn len(&self) -> (r: usize)
        ensures r == self@.len(),
    { unimplemented!() }
    #[verifier::external_body]
    pub fn insert(&mut self, v: V) -> (r: bool)
        ensures
            old(self)@.contains(v) ==> final(self)@ == old(self)@ && !r,
            !old(self)@.contains(v) ==> final(self)@ == old(self)@.push(v) && r,
    { unimplemented!() }
    #[verifier::external_body]
    pub fn get_index(&self, i: usize) -> (r: Option<&V>)
        ensures
            i < self@.len() ==> r == Some(&self@[i as int]),
            i >= self@.len() ==> r is None,
    { unimplemented!() }
}

// ---- std integer operations that realistic edits of this code reach for (trusted std contracts)
pub assume_specification[ usize::pow ](a: usize, b: u32) -> (r: usize)
    requires vstd::arithmetic::power::pow(a as int, b as nat) <= usize::MAX,
    ensures r == vstd::arithmetic::power::pow(a as int, b as nat);
