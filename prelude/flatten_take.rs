// ---- `chunks.iter().flatten().take(n).collect::<Vec<_>>()` over 128-slot chunks (rule R25): references to the
// first n slots in slot order (all of them if there are fewer).  Plain Rust, VERIFIED.
pub fn vflatten_take<T>(v: &Vec<[T; 128]>, n: usize) -> (r: Vec<&T>)
    requires v@.len() * 128 <= usize::MAX,
    ensures
        r@.len() == (if n <= v@.len() * 128 { n as int } else { (v@.len() * 128) as int }),
        forall|i: int| 0 <= i < r@.len() ==> *(#[trigger] r@[i]) == v@[i / 128]@[i % 128],
{
    let mut out: Vec<&T> = Vec::new();
    let mut c: usize = 0;
    while c < v.len() && out.len() < n
        invariant
            c <= v@.len(), v@.len() * 128 <= usize::MAX,
            out@.len() <= n,
            out@.len() == c * 128 || (out@.len() == n && out@.len() <= c * 128),
            forall|i: int| 0 <= i < out@.len() ==> *(#[trigger] out@[i]) == v@[i / 128]@[i % 128],
        decreases v@.len() - c,
    {
        let mut j: usize = 0;
        while j < 128 && out.len() < n
            invariant
                c < v@.len(), j <= 128, v@.len() * 128 <= usize::MAX,
                out@.len() <= n,
                out@.len() == c * 128 + j || (out@.len() == n && out@.len() <= c * 128 + j),
                forall|i: int| 0 <= i < out@.len() ==> *(#[trigger] out@[i]) == v@[i / 128]@[i % 128],
            decreases 128 - j,
        {
            proof { assert(out@.len() == c * 128 + j); assert((c * 128 + j) / 128 == c && (c * 128 + j) % 128 == j) by (nonlinear_arith) requires 0 <= j < 128, 0 <= c; }
            out.push(&v[c][j]);
            j += 1;
        }
        c += 1;
    }
    proof {
        if out@.len() < n { assert(c == v@.len()); }
    }
    out
}
