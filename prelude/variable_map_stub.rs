// ---- trusted stand-in for solver::variable_map::VariableMap (HashMap Entry API, outside the subset).
// Assumed contract (listed in the evidence): interning is stable and injective, solvables never get the root
// variable (0), and variable ids stay below 2^31 - 1.
#[verifier::external_body]
pub struct VariableMap { _p: () }
impl VariableMap {
    pub uninterp spec fn var_of(&self, s: SolvableId) -> Option<VariableId>;
    /// the id the next freshly allocated variable gets (every allocated variable id is below it)
    pub uninterp spec fn next(&self) -> nat;
    #[verifier::external_body]
    pub fn intern_solvable(&mut self, solvable_id: SolvableId) -> (v: VariableId)
        ensures
            old(self).var_of(solvable_id) is None ==> v.idx() == old(self).next() && final(self).next() == old(self).next() + 1,
            old(self).var_of(solvable_id) is Some ==> final(self).next() == old(self).next(),
            v.idx() < final(self).next(),
            final(self).var_of(solvable_id) == Some(v),
            old(self).var_of(solvable_id) is Some ==> old(self).var_of(solvable_id) == Some(v),
            forall|s: SolvableId| s != solvable_id ==> #[trigger] final(self).var_of(s) == old(self).var_of(s),
            forall|s: SolvableId| #[trigger] final(self).var_of(s) == Some(v) ==> s == solvable_id,
            0 < v.idx() < MAX_VAR,
    { unimplemented!() }
    #[verifier::external_body]
    pub fn intern_solvable_or_root(&mut self, solvable_or_root_id: SolvableOrRootId) -> (v: VariableId)
        ensures
            sor_solvable(solvable_or_root_id) is None ==> v.idx() == 0 && final(self).next() == old(self).next() && forall|s: SolvableId| #[trigger] final(self).var_of(s) == old(self).var_of(s),
            sor_solvable(solvable_or_root_id) is Some ==> {
                let sid = sor_solvable(solvable_or_root_id).unwrap();
                &&& final(self).var_of(sid) == Some(v)
                &&& (old(self).var_of(sid) is Some ==> old(self).var_of(sid) == Some(v))
                &&& forall|s: SolvableId| s != sid ==> #[trigger] final(self).var_of(s) == old(self).var_of(s)
                &&& forall|s: SolvableId| #[trigger] final(self).var_of(s) == Some(v) ==> s == sid
                &&& 0 < v.idx() < MAX_VAR
                &&& (old(self).var_of(sid) is None ==> v.idx() == old(self).next() && final(self).next() == old(self).next() + 1)
                &&& (old(self).var_of(sid) is Some ==> final(self).next() == old(self).next())
            },
    { unimplemented!() }
}

// ---- SolvableOrRootId (u32 newtype with a +1 encoding): contracts proved on the real code by Kani
// solvable_or_root_roundtrip (full domain)
//@item src/internal/id.rs struct SolvableOrRootId
pub uninterp spec fn sor_solvable(s: SolvableOrRootId) -> Option<SolvableId>;
#[verifier::external_body]
pub fn vsor_from(value: SolvableId) -> (r: SolvableOrRootId)
    requires value.0 < u32::MAX,
    ensures sor_solvable(r) == Some(value),
{ unimplemented!() }

