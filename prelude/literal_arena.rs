// ---- ArenaId for the Literal stand-in (Kani lit_from_to_usize, lit_new_roundtrip)
impl ArenaId for Literal {
    /// Kani lit_new_roundtrip: to_usize == (variable << 1) | negate
    open spec fn idx(self) -> nat { 2 * self.var() + (if self.neg() { 1nat } else { 0nat }) }
    open spec fn max_index() -> nat { (u32::MAX - 1) as nat }
    proof fn lemma_max_index() {}
    #[verifier::external_body]
    fn from_usize(x: usize) -> (r: Self) { unimplemented!() }
    #[verifier::external_body]
    fn to_usize(self) -> (r: usize) { unimplemented!() }
}
