/// pigeonhole: a sequence of distinct numbers below n has at most n elements
pub proof fn lemma_pigeon(s: Seq<int>, n: nat)
    requires
        forall|i: int| 0 <= i < s.len() ==> 0 <= #[trigger] s[i] < n,
        forall|i: int, j: int| 0 <= i < j < s.len() ==> #[trigger] s[i] != #[trigger] s[j],
    ensures s.len() <= n,
    decreases n
{
    if s.len() > 0 {
        if n == 0 {
            assert(0 <= s[0] < n);
        } else if exists|i: int| 0 <= i < s.len() && #[trigger] s[i] == n - 1 {
            let i0 = choose|i: int| 0 <= i < s.len() && #[trigger] s[i] == n - 1;
            let s2 = s.remove(i0);
            assert forall|i: int| 0 <= i < s2.len() implies 0 <= #[trigger] s2[i] < n - 1 by {
                if i < i0 { assert(s2[i] == s[i]); assert(s[i] != s[i0]); } else { assert(s2[i] == s[i + 1]); assert(s[i0] != s[i + 1]); }
            }
            assert forall|i: int, j: int| 0 <= i < j < s2.len() implies #[trigger] s2[i] != #[trigger] s2[j] by {
                let a = if i < i0 { i } else { i + 1 };
                let b = if j < i0 { j } else { j + 1 };
                assert(s2[i] == s[a] && s2[j] == s[b]);
            }
            lemma_pigeon(s2, (n - 1) as nat);
        } else {
            assert forall|i: int| 0 <= i < s.len() implies 0 <= #[trigger] s[i] < n - 1 by { }
            lemma_pigeon(s, (n - 1) as nat);
        }
    }
}
