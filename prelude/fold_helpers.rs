// ---- `try_fold` over the literal sequences of Clause::try_fold_literals (rule R18).  The helpers are plain Rust
// and VERIFIED against `fold_spec`, the std definition of Iterator::try_fold: visit the elements in order,
// threading the accumulator, stop at the first Break.
pub open spec fn fold_spec<B, C, F: FnMut(C, Literal) -> ControlFlow<B, C>>(f: F, s: Seq<Literal>, init: C, r: ControlFlow<B, C>) -> bool
    decreases s.len(),
{
    if s.len() == 0 {
        r == ControlFlow::<B, C>::Continue(init)
    } else {
        exists|step: ControlFlow<B, C>| #[trigger] f.ensures((init, s[0]), step) && match step {
            ControlFlow::Break(b) => r == ControlFlow::<B, C>::Break(b),
            ControlFlow::Continue(c) => fold_spec(f, s.skip(1), c, r),
        }
    }
}

/// the positive literal of a variable, as a spec value
pub open spec fn pos_lit(v: VariableId) -> Literal {
    choose|l: Literal| l.var() == v.idx() && !l.neg()
}
pub open spec fn pos_lits(vs: Seq<VariableId>) -> Seq<Literal> {
    Seq::new(vs.len(), |i: int| pos_lit(vs[i]))
}
pub open spec fn flat_pos_lits(vss: Seq<Vec<VariableId>>) -> Seq<Literal>
    decreases vss.len(),
{
    if vss.len() == 0 { Seq::<Literal>::empty() } else { pos_lits(vss[0]@) + flat_pos_lits(vss.skip(1)) }
}

pub proof fn lemma_fold_one<B, C, F: FnMut(C, Literal) -> ControlFlow<B, C>>(f: F, l: Literal, rest: Seq<Literal>, init: C, step: ControlFlow<B, C>, r: ControlFlow<B, C>)
    requires f.ensures((init, l), step),
        match step { ControlFlow::Break(b) => r == ControlFlow::<B, C>::Break(b), ControlFlow::Continue(c) => fold_spec(f, rest, c, r) },
    ensures fold_spec(f, seq![l] + rest, init, r),
{
    let s = seq![l] + rest;
    assert(s[0] == l);
    assert(s.skip(1) =~= rest);
}

/// `[a, b].into_iter().try_fold(init, visit)`
pub fn vtry_fold2<B, C, F>(a: Literal, b: Literal, init: C, mut visit: F) -> (r: ControlFlow<B, C>)
    where F: FnMut(C, Literal) -> ControlFlow<B, C>
    requires forall|c: C, l: Literal| visit.requires((c, l)),
    ensures fold_spec(visit, seq![a, b], init, r),
{
    let ghost f0 = visit;
    match visit(init, a) {
        ControlFlow::Continue(c) => {
            let r2 = visit(c, b);
            proof {
                lemma_fold_one(f0, b, Seq::<Literal>::empty(), c, r2, r2);
                assert(seq![b] + Seq::<Literal>::empty() =~= seq![b]);
                lemma_fold_one(f0, a, seq![b], init, ControlFlow::<B, C>::Continue(c), r2);
                assert(seq![a] + seq![b] =~= seq![a, b]);
            }
            r2
        },
        ControlFlow::Break(bb) => {
            proof {
                lemma_fold_one(f0, a, seq![b], init, ControlFlow::<B, C>::Break(bb), ControlFlow::<B, C>::Break(bb));
                assert(seq![a] + seq![b] =~= seq![a, b]);
            }
            ControlFlow::Break(bb)
        },
    }
}

pub proof fn lemma_fold_step<B, C, F: FnMut(C, Literal) -> ControlFlow<B, C>>(f: F, s: Seq<Literal>, i: int, acc: C, step: ControlFlow<B, C>, r: ControlFlow<B, C>)
    requires 0 <= i < s.len(), f.ensures((acc, s[i]), step),
        match step { ControlFlow::Break(b) => r == ControlFlow::<B, C>::Break(b), ControlFlow::Continue(c) => fold_spec(f, s.skip(i + 1), c, r) },
    ensures fold_spec(f, s.skip(i), acc, r),
{
    assert(s.skip(i)[0] == s[i]);
    assert(s.skip(i).skip(1) =~= s.skip(i + 1));
}

/// `v.iter().copied().try_fold(init, visit)` — written recursively over the start index
pub fn vtry_fold_from<B, C, F>(v: &Vec<Literal>, i: usize, acc: C, mut visit: F) -> (r: ControlFlow<B, C>)
    where F: FnMut(C, Literal) -> ControlFlow<B, C>
    requires i <= v@.len(), forall|c: C, l: Literal| visit.requires((c, l)),
    ensures fold_spec(visit, v@.skip(i as int), acc, r),
    decreases v@.len() - i,
{
    if i >= v.len() {
        proof { assert(v@.skip(i as int).len() == 0); }
        ControlFlow::Continue(acc)
    } else {
        let ghost f0 = visit;
        let step = visit(acc, v[i]);
        match step {
            ControlFlow::Continue(c) => {
                let r = vtry_fold_from(v, i + 1, c, visit);
                proof { lemma_fold_step(f0, v@, i as int, acc, ControlFlow::<B, C>::Continue(c), r); }
                r
            },
            ControlFlow::Break(b) => {
                proof { lemma_fold_step(f0, v@, i as int, acc, ControlFlow::<B, C>::Break(b), ControlFlow::<B, C>::Break(b)); }
                ControlFlow::Break(b)
            },
        }
    }
}
pub fn vtry_fold_vec<B, C, F>(v: &Vec<Literal>, init: C, visit: F) -> (r: ControlFlow<B, C>)
    where F: FnMut(C, Literal) -> ControlFlow<B, C>
    requires forall|c: C, l: Literal| visit.requires((c, l)),
    ensures fold_spec(visit, v@, init, r),
{
    proof { assert(v@.skip(0) =~= v@); }
    vtry_fold_from(v, 0, init, visit)
}

/// the literals still to be visited from candidate (o, k) on
pub open spec fn rest_lits(cands: Seq<Vec<VariableId>>, o: int, k: int) -> Seq<Literal> {
    if o >= cands.len() { Seq::<Literal>::empty() } else { pos_lits(cands[o]@).skip(k) + flat_pos_lits(cands.skip(o + 1)) }
}

pub fn vtry_fold_cands<B, C, F>(cands: &Vec<Vec<VariableId>>, o: usize, k: usize, acc: C, mut visit: F) -> (r: ControlFlow<B, C>)
    where F: FnMut(C, Literal) -> ControlFlow<B, C>
    requires
        o <= cands@.len(), o < cands@.len() ==> k <= cands@[o as int]@.len(),
        forall|c: C, l: Literal| visit.requires((c, l)),
        forall|a: int, b: int| 0 <= a < cands@.len() && 0 <= b < cands@[a]@.len() ==> (#[trigger] cands@[a]@[b]).idx() < MAX_VAR,
    ensures fold_spec(visit, rest_lits(cands@, o as int, k as int), acc, r),
    decreases cands@.len() - o, (if o < cands@.len() { cands@[o as int]@.len() - k } else { 0 }),
{
    if o >= cands.len() {
        ControlFlow::Continue(acc)
    } else if k >= cands[o].len() {
        let r = vtry_fold_cands(cands, o + 1, 0, acc, visit);
        proof {
            let cs = cands@;
            assert(pos_lits(cs[o as int]@).skip(k as int) =~= Seq::<Literal>::empty());
            if o + 1 < cs.len() {
                let t = cs.skip(o as int + 1);
                assert(t[0] == cs[o as int + 1]);
                assert(t.skip(1) =~= cs.skip(o as int + 2));
                assert(pos_lits(cs[o as int + 1]@).skip(0) =~= pos_lits(cs[o as int + 1]@));
                assert(rest_lits(cs, o as int, k as int) =~= rest_lits(cs, o as int + 1, 0));
            } else {
                assert(cs.skip(o as int + 1).len() == 0);
                assert(rest_lits(cs, o as int, k as int) =~= rest_lits(cs, o as int + 1, 0));
            }
        }
        r
    } else {
        let ghost f0 = visit;
        let lit = cands[o][k].positive();
        proof {
            broadcast use axiom_literal_ext;
            let cs = cands@;
            let p = pos_lit(cs[o as int]@[k as int]);
            // pos_lit is well defined: `lit` is a witness
            assert(p.var() == cs[o as int]@[k as int].idx() && !p.neg());
            assert(lit == p);
        }
        let step = visit(acc, lit);
        match step {
            ControlFlow::Continue(c) => {
                let r = vtry_fold_cands(cands, o, k + 1, c, visit);
                proof {
                    let cs = cands@;
                    let s = rest_lits(cs, o as int, k as int);
                    assert(s[0] == lit);
                    assert(s.skip(1) =~= rest_lits(cs, o as int, k as int + 1));
                    lemma_fold_one(f0, lit, rest_lits(cs, o as int, k as int + 1), acc, ControlFlow::<B, C>::Continue(c), r);
                    assert(seq![lit] + rest_lits(cs, o as int, k as int + 1) =~= s);
                }
                r
            },
            ControlFlow::Break(b) => {
                proof {
                    let cs = cands@;
                    let s = rest_lits(cs, o as int, k as int);
                    assert(s[0] == lit);
                    lemma_fold_one(f0, lit, s.skip(1), acc, ControlFlow::<B, C>::Break(b), ControlFlow::<B, C>::Break(b));
                    assert(seq![lit] + s.skip(1) =~= s);
                }
                ControlFlow::Break(b)
            },
        }
    }
}

/// `iter::once(first).chain(cands.iter().flatten().map(|&s| s.positive())).try_fold(init, visit)`
pub fn vtry_fold_requires<B, C, F>(first: Literal, cands: &Vec<Vec<VariableId>>, init: C, mut visit: F) -> (r: ControlFlow<B, C>)
    where F: FnMut(C, Literal) -> ControlFlow<B, C>
    requires
        forall|c: C, l: Literal| visit.requires((c, l)),
        forall|a: int, b: int| 0 <= a < cands@.len() && 0 <= b < cands@[a]@.len() ==> (#[trigger] cands@[a]@[b]).idx() < MAX_VAR,
    ensures fold_spec(visit, seq![first] + flat_pos_lits(cands@), init, r),
{
    let ghost f0 = visit;
    let step = visit(init, first);
    match step {
        ControlFlow::Continue(c) => {
            let r = vtry_fold_cands(cands, 0, 0, c, visit);
            proof {
                let cs = cands@;
                if cs.len() > 0 {
                    assert(cs.skip(0) =~= cs);
                    assert(pos_lits(cs[0]@).skip(0) =~= pos_lits(cs[0]@));
                    assert(rest_lits(cs, 0, 0) =~= flat_pos_lits(cs));
                } else {
                    assert(rest_lits(cs, 0, 0) =~= flat_pos_lits(cs));
                }
                lemma_fold_one(f0, first, flat_pos_lits(cs), init, ControlFlow::<B, C>::Continue(c), r);
            }
            r
        },
        ControlFlow::Break(b) => {
            proof { lemma_fold_one(f0, first, flat_pos_lits(cands@), init, ControlFlow::<B, C>::Break(b), ControlFlow::<B, C>::Break(b)); }
            ControlFlow::Break(b)
        },
    }
}
