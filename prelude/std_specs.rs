// ---- trusted contracts on std functions (assume_specification); enumerated in the evidence ----
pub assume_specification<T>[ Option::<T>::replace ](o: &mut Option<T>, value: T) -> (r: Option<T>)
    ensures r == *old(o), *final(o) == Some(value);

// `v.resize_with(n, || std::array::from_fn(|_| None))` (rule R8resize_none): documented behaviour of
// Vec::resize_with + array::from_fn with a closure that always yields None.  TRUSTED.
#[verifier::external_body]
pub fn vresize_with_none<T, const N: usize>(v: &mut Vec<[Option<T>; N]>, new_len: usize)
    ensures
        final(v)@.len() == new_len,
        forall|i: int| 0 <= i < new_len && i < old(v)@.len() ==> final(v)@[i] == old(v)@[i],
        forall|i: int, j: int| old(v)@.len() <= i < new_len && 0 <= j < N ==> (#[trigger] final(v)@[i]@[j]) is None,
{
    v.resize_with(new_len, || std::array::from_fn(|_| None))
}

// a.max(b) on usize is rewritten by rule R8max into this helper (pure Rust, verified)
pub fn vmax(a: usize, b: usize) -> (r: usize)
    ensures r == (if a >= b { a } else { b })
{
    if a >= b { a } else { b }
}

// `arr[..n].iter().rposition(Option::is_some)` (rule R8rposition): last index below n holding a Some.  Verified helper.
pub fn vrposition_some<T, const N: usize>(arr: &[Option<T>; N], n: usize) -> (r: Option<usize>)
    requires n <= N,
    ensures match r {
        Some(p) => p < n && arr@[p as int] is Some && forall|j: int| p < j < n ==> arr@[j] is None,
        None => forall|j: int| 0 <= j < n ==> arr@[j] is None,
    },
{
    let mut i: usize = n;
    while i > 0
        invariant i <= n, n <= N, forall|j: int| i <= j < n ==> arr@[j] is None,
        decreases i,
    {
        i -= 1;
        if arr[i].is_some() { return Some(i); }
    }
    None
}
