// ---- trusted stand-in for bitvec::vec::BitVec as used by SolverCache::hint_dependencies_available
#[verifier::external_body]
pub struct BitVec { _p: () }
impl View for BitVec {
    type V = Seq<bool>;
    uninterp spec fn view(&self) -> Seq<bool>;
}
impl BitVec {
    #[verifier::external_body]
    pub fn len(&self) -> (r: usize) ensures r == self@.len() { unimplemented!() }
    /// bitvec docs: resizes in place; new bits take `value`
    #[verifier::external_body]
    pub fn resize(&mut self, new_len: usize, value: bool)
        ensures final(self)@.len() == new_len,
            forall|i: int| 0 <= i < new_len && i < old(self)@.len() ==> final(self)@[i] == old(self)@[i],
            forall|i: int| old(self)@.len() <= i < new_len ==> final(self)@[i] == value,
    { unimplemented!() }
    /// bitvec docs: writes one bit; panics if index is out of bounds
    #[verifier::external_body]
    pub fn set(&mut self, index: usize, value: bool)
        requires index < old(self)@.len(),
        ensures final(self)@ == old(self)@.update(index as int, value),
    { unimplemented!() }
    /// `get(i).as_deref().copied()` (rule R8bitget): Some(bit) in range, None beyond
    #[verifier::external_body]
    pub fn vget(&self, index: usize) -> (r: Option<bool>)
        ensures r == (if index < self@.len() { Some(self@[index as int]) } else { None::<bool> }),
    { unimplemented!() }
}

// `&X[A..B]` (rule R8slice); precondition = panic condition of the range slice
pub fn vslice<T>(v: &Vec<T>, a: usize, b: usize) -> (r: &[T])
    requires a <= b <= v@.len(),
    ensures r@ == v@.subrange(a as int, b as int),
{
    vstd::slice::slice_subrange(v.as_slice(), a, b)
}
