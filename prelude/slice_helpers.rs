// `X.iter().position(|&s| s == Y)` (rule R8position): first index holding Y.  Verified helper.
pub fn vposition(v: &Vec<SolvableId>, y: SolvableId) -> (r: Option<usize>)
    ensures
        match r {
            Some(p) => p < v@.len() && v@[p as int] == y && forall|j: int| 0 <= j < p ==> v@[j] != y,
            None => forall|j: int| 0 <= j < v@.len() ==> v@[j] != y,
        },
{
    let mut i: usize = 0;
    while i < v.len()
        invariant i <= v@.len(), forall|j: int| 0 <= j < i ==> v@[j] != y,
        decreases v@.len() - i,
    {
        if v[i].0 == y.0 { return Some(i); }
        i += 1;
    }
    None
}

/// rotation of a sequence to the right by k: the last k elements move to the front
pub open spec fn rot_right<T>(s: Seq<T>, k: int) -> Seq<T> {
    s.skip(s.len() - k) + s.take(s.len() - k)
}
pub open spec fn rot_left<T>(s: Seq<T>, k: int) -> Seq<T> {
    s.skip(k) + s.take(k)
}

// `X[A..B].rotate_right(K)` (rule R8rotate).  TRUSTED: documented behaviour of range slicing (panics unless
// A <= B <= len) and of slice::rotate_right (panics if K > len of the slice).
#[verifier::external_body]
pub fn vrotate_right<T>(v: &mut Vec<T>, a: usize, b: usize, k: usize)
    requires a <= b <= old(v)@.len(), k <= b - a,
    ensures final(v)@ == old(v)@.take(a as int) + rot_right(old(v)@.subrange(a as int, b as int), k as int) + old(v)@.skip(b as int),
{
    v[a..b].rotate_right(k)
}
#[verifier::external_body]
pub fn vrotate_left<T>(v: &mut Vec<T>, a: usize, b: usize, k: usize)
    requires a <= b <= old(v)@.len(), k <= b - a,
    ensures final(v)@ == old(v)@.take(a as int) + rot_left(old(v)@.subrange(a as int, b as int), k as int) + old(v)@.skip(b as int),
{
    v[a..b].rotate_left(k)
}
