// `v.resize_with(n, || Vec::with_capacity(C))` (rule R8resize_veccap).  TRUSTED: documented behaviour of
// Vec::resize_with + Vec::with_capacity: new elements are empty vectors, old ones unchanged.
#[verifier::external_body]
pub fn vresize_with_veccap<T>(v: &mut Vec<Vec<T>>, new_len: usize, cap: usize)
    ensures
        final(v)@.len() == new_len,
        forall|i: int| 0 <= i < new_len && i < old(v)@.len() ==> final(v)@[i] == old(v)@[i],
        forall|i: int| old(v)@.len() <= i < new_len ==> (#[trigger] final(v)@[i])@.len() == 0,
{
    v.resize_with(new_len, || Vec::with_capacity(cap))
}

pub assume_specification[ usize::div_ceil ](a: usize, b: usize) -> (r: usize)
    requires b > 0,
    ensures r == (a as int + b as int - 1) / (b as int);

pub assume_specification[ usize::leading_zeros ](a: usize) -> (r: u32)
    ensures r <= 64, a == 0 ==> r == 64,
        a != 0 ==> r < 64 && (a >> ((63 - r) as usize)) == 1;
pub assume_specification[ usize::is_power_of_two ](a: usize) -> (r: bool)
    ensures r == (a != 0 && (a & ((a - 1) as usize)) == 0);
