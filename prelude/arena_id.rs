// ---- the ArenaId trait of /repo (src/internal/arena.rs) with its law stated as a contract.
// The impls in src/internal/id.rs are verified against this contract in unit `ids`.
pub trait ArenaId: Sized {
    /// abstract index of the id
    spec fn idx(self) -> nat;
    /// largest index representable by the id type
    spec fn max_index() -> nat;
    proof fn lemma_max_index()
        ensures Self::max_index() <= u32::MAX;
    //@fn src/internal/arena.rs trait ArenaId::from_usize ret=r
    //@spec
        requires x <= Self::max_index(),
        ensures r.idx() == x,
    //@end
    //@fn src/internal/arena.rs trait ArenaId::to_usize ret=r
    //@spec
        ensures r == self.idx(), r <= Self::max_index(),
    //@end
}
