pub assume_specification<'a, T: Copy>[ Option::<&'a T>::copied ](o: Option<&'a T>) -> (r: Option<T>)
    ensures r == (match o { Some(v) => Some(*v), None => None::<T> });
