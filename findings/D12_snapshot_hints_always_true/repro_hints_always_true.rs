//! Repro: `snapshot::Solvable::hint_dependencies_available` is `true` for EVERY captured
//! solvable, whatever the provider said in `Candidates::hint_dependencies_available`.
//!
//! src/snapshot.rs:217 fetches the dependencies of the solvable
//! (`cache.get_or_cache_dependencies(solvable_id)`), and only then src/snapshot.rs:264-265 asks
//! `cache.are_dependencies_available_for(solvable_id)`, which by definition answers `true` for
//! every solvable whose dependencies have been requested (src/solver/cache.rs:369-371).  The
//! hints collected from the provider in `available_hints` (src/snapshot.rs:175, 195-201) are
//! never read.  `SnapshotProvider::get_candidates` therefore reports
//! `HintDependenciesAvailable::Some(<all candidates>)` (src/snapshot.rs:483-490) and the solver
//! encodes eagerly (src/solver/encoding.rs:247), which changes decision order:
//!   * the solution comes out in a different ORDER,
//!   * a different SOLUTION is chosen,
//!   * a different conflict message is produced,
//! although the provider gave no hints at all (`HintDependenciesAvailable::None`).
use std::{collections::BTreeMap, fmt::Display};

use resolvo::{
    Candidates, Dependencies, DependencyProvider, Interner, KnownDependencies, NameId, Problem,
    SolvableId, Solver, SolverCache, StringId, UnsolvableOrCancelled, VersionSetId,
    VersionSetUnionId,
    snapshot::DependencySnapshot,
    utils::{Pool, VersionSet},
};

// ---- a minimal provider over explicit data ---------------------------------------------------

#[derive(Clone, Debug, PartialEq, Eq, Hash)]
struct R(u32, u32);
impl VersionSet for R {
    type V = u32;
}
impl Display for R {
    fn fmt(&self, f: &mut std::fmt::Formatter<'_>) -> std::fmt::Result {
        write!(f, "{}..{}", self.0, self.1)
    }
}

#[derive(Default)]
struct P {
    pool: Pool<R, String>,
    candidates: BTreeMap<NameId, Candidates>,
    deps: BTreeMap<SolvableId, KnownDependencies>,
}

#[allow(dead_code)]
impl P {
    fn name(&self, n: &str) -> NameId {
        self.pool.intern_package_name(n.to_string())
    }
    /// registers the candidate `n=v` (no dependencies yet)
    fn solvable(&mut self, n: &str, v: u32) -> SolvableId {
        let name = self.name(n);
        let s = self.pool.intern_solvable(name, v);
        self.candidates.entry(name).or_default().candidates.push(s);
        self.deps.insert(s, Default::default());
        s
    }
    /// the version set `n lo..hi` (half open)
    fn vs(&self, n: &str, lo: u32, hi: u32) -> VersionSetId {
        self.pool.intern_version_set(self.name(n), R(lo, hi))
    }
    fn any(&self, n: &str) -> VersionSetId {
        self.vs(n, 0, 100)
    }
    fn requires(&mut self, s: SolvableId, vs: VersionSetId) {
        self.deps.get_mut(&s).unwrap().requirements.push(vs.into());
    }
    fn constrains(&mut self, s: SolvableId, vs: VersionSetId) {
        self.deps.get_mut(&s).unwrap().constrains.push(vs);
    }
    fn all_names(&self) -> Vec<NameId> {
        self.candidates.keys().copied().collect()
    }
}

impl Interner for P {
    fn display_solvable(&self, s: SolvableId) -> impl Display + '_ {
        let s = self.pool.resolve_solvable(s);
        format!("{}={}", self.pool.resolve_package_name(s.name), s.record)
    }
    fn display_name(&self, name: NameId) -> impl Display + '_ {
        self.pool.resolve_package_name(name).clone()
    }
    fn display_version_set(&self, vs: VersionSetId) -> impl Display + '_ {
        self.pool.resolve_version_set(vs).clone()
    }
    fn display_string(&self, s: StringId) -> impl Display + '_ {
        self.pool.resolve_string(s).to_owned()
    }
    fn version_set_name(&self, vs: VersionSetId) -> NameId {
        self.pool.resolve_version_set_package_name(vs)
    }
    fn solvable_name(&self, s: SolvableId) -> NameId {
        self.pool.resolve_solvable(s).name
    }
    fn version_sets_in_union(&self, u: VersionSetUnionId) -> impl Iterator<Item = VersionSetId> {
        self.pool.resolve_version_set_union(u)
    }
}

impl DependencyProvider for P {
    async fn filter_candidates(
        &self,
        candidates: &[SolvableId],
        vs: VersionSetId,
        inverse: bool,
    ) -> Vec<SolvableId> {
        let r = self.pool.resolve_version_set(vs);
        candidates
            .iter()
            .copied()
            .filter(|s| {
                let v = self.pool.resolve_solvable(*s).record;
                (r.0 <= v && v < r.1) != inverse
            })
            .collect()
    }
    async fn get_candidates(&self, name: NameId) -> Option<Candidates> {
        self.candidates.get(&name).cloned()
    }
    async fn sort_candidates(&self, _: &SolverCache<Self>, solvables: &mut [SolvableId]) {
        // highest version first
        solvables.sort_by_key(|s| std::cmp::Reverse(self.pool.resolve_solvable(*s).record));
    }
    async fn get_dependencies(&self, s: SolvableId) -> Dependencies {
        Dependencies::Known(self.deps[&s].clone())
    }
}

/// Solves `requirements` with `provider`; the solution in solver order, or the conflict message.
fn solve<D: DependencyProvider>(provider: D, requirements: &[VersionSetId]) -> Result<Vec<String>, String> {
    let mut solver = Solver::new(provider);
    let problem = Problem::new().requirements(requirements.iter().map(|&v| v.into()).collect());
    match solver.solve(problem) {
        Ok(sol) => Ok(sol
            .iter()
            .map(|s| solver.provider().display_solvable(*s).to_string())
            .collect()),
        Err(UnsolvableOrCancelled::Unsolvable(c)) => {
            Err(c.display_user_friendly(&solver).to_string())
        }
        Err(UnsolvableOrCancelled::Cancelled(_)) => Err("cancelled".into()),
    }
}

/// Solves the problem (a) with the provider built by `build` and (b) through a snapshot of a
/// second, identical provider (seeded with all package names and the requirements themselves).
fn direct_and_snapshot(
    build: fn() -> (P, Vec<VersionSetId>),
) -> (Result<Vec<String>, String>, Result<Vec<String>, String>) {
    let (p, reqs) = build();
    let direct = solve(p, &reqs);
    let (p, reqs) = build();
    let names = p.all_names();
    let snapshot = DependencySnapshot::from_provider(p, names, reqs.clone(), []).unwrap();
    let through_snapshot = solve(snapshot.provider(), &reqs);
    (direct, through_snapshot)
}

/// root=1 requires p1, p2;  p1=1;  p2=1   (no hints)
fn order_provider() -> (P, Vec<VersionSetId>) {
    let mut p = P::default();
    let root = p.solvable("root", 1);
    p.solvable("p1", 1);
    p.solvable("p2", 1);
    let (p1, p2) = (p.any("p1"), p.any("p2"));
    p.requires(root, p1);
    p.requires(root, p2);
    let req = p.any("root");
    (p, vec![req])
}

/// The provider gives `HintDependenciesAvailable::None`; the snapshot must not claim otherwise.
#[test]
fn snapshot_captures_the_hints_of_the_provider() {
    let (p, reqs) = order_provider();
    let names = p.all_names();
    let snapshot = DependencySnapshot::from_provider(p, names, reqs, []).unwrap();
    let hinted: Vec<String> = snapshot
        .solvables
        .iter()
        .filter(|(_, s)| s.hint_dependencies_available)
        .map(|(_, s)| s.display.clone())
        .collect();
    assert_eq!(hinted, Vec::<String>::new(), "solvables marked `hint_dependencies_available`");
}

/// provider: [root=1, p1=1, p2=1]; snapshot: [root=1, p2=1, p1=1]
#[test]
fn snapshot_gives_the_solution_in_the_same_order() {
    let (direct, snapshot) = direct_and_snapshot(order_provider);
    assert_eq!(direct, Ok(vec!["root=1".into(), "p1=1".into(), "p2=1".into()]));
    assert_eq!(direct, snapshot);
}

/// p0=2 requires "p1 1..2"
/// p1=1; p1=2; p1=3 requires "p2"
/// p2=1
/// p4=1; p4=2 requires "p0", constrains "p0 3..4"; p4=3 constrains "p2 3..4"
/// problem: p1, p4        (highest version first, no hints)
fn solution_provider() -> (P, Vec<VersionSetId>) {
    let mut p = P::default();
    let p0_2 = p.solvable("p0", 2);
    p.solvable("p1", 1);
    p.solvable("p1", 2);
    let p1_3 = p.solvable("p1", 3);
    p.solvable("p2", 1);
    p.solvable("p4", 1);
    let p4_2 = p.solvable("p4", 2);
    let p4_3 = p.solvable("p4", 3);
    let v = p.vs("p1", 1, 2);
    p.requires(p0_2, v);
    let v = p.any("p2");
    p.requires(p1_3, v);
    let v = p.any("p0");
    p.requires(p4_2, v);
    let v = p.vs("p0", 3, 4);
    p.constrains(p4_2, v);
    let v = p.vs("p2", 3, 4);
    p.constrains(p4_3, v);
    let reqs = vec![p.any("p1"), p.any("p4")];
    (p, reqs)
}

/// provider: [p4=3, p1=2]; snapshot: [p1=3, p2=1, p4=1]
#[test]
fn snapshot_gives_the_same_solution() {
    let (direct, snapshot) = direct_and_snapshot(solution_provider);
    assert_eq!(direct, Ok(vec!["p4=3".into(), "p1=2".into()]));
    assert_eq!(direct, snapshot);
}

/// p0=1 requires "p2", constrains "p2 3..4";  p2=1 constrains "p0 2..3";  problem: p0
fn message_provider() -> (P, Vec<VersionSetId>) {
    let mut p = P::default();
    let p0_1 = p.solvable("p0", 1);
    let p2_1 = p.solvable("p2", 1);
    let v = p.any("p2");
    p.requires(p0_1, v);
    let v = p.vs("p2", 3, 4);
    p.constrains(p0_1, v);
    let v = p.vs("p0", 2, 3);
    p.constrains(p2_1, v);
    let req = p.any("p0");
    (p, vec![req])
}

/// both are unsolvable, but the explanation differs
#[test]
fn snapshot_gives_the_same_conflict_message() {
    let (direct, snapshot) = direct_and_snapshot(message_provider);
    assert!(direct.is_err());
    assert_eq!(direct, snapshot);
}
