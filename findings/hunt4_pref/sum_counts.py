#!/usr/bin/env python3
"""Sums the `COUNTS ...` lines of hunt4 logs:  sum_counts.py logs/A_*.log"""
import re, sys, collections
tot = collections.Counter(); classes = collections.Counter(); files = 0
for f in sys.argv[1:]:
    for line in open(f, errors='replace'):
        if line.startswith('COUNTS'):
            files += 1
            tot['universes'] += int(re.search(r'universes=(\d+)', line).group(1))
            for k, v in re.findall(r'(\w+): (\d+)', line):
                tot[k] += int(v)
        m = re.match(r'\s*(\d+) x (\S+)', line)
        if m:
            classes[m.group(2)] += int(m.group(1))
        if 'HANG' in line:
            classes['HANG'] += 1
print(f'{files} finished runs')
for k, v in tot.items():
    print(f'  {k:18} {v:>12,}')
print('failure classes:', dict(classes) if classes else 'none')
