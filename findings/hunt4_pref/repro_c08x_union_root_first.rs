//! BORDERLINE (not counted as a genuine C08 violation, see notes.md): C08 read WITHOUT its
//! quantifier ("problems whose root requirements are single version sets").
//!
//! Statement of C08: "If some valid solution contains the first-ranked candidate of every
//! single-package root requirement simultaneously, the returned solution contains all of those
//! candidates".
//!
//! Universe
//!     a=2  requires b 1..2        a=1  (no dependencies)
//!     b=2                         b=1
//!     c=1
//!     root requires [ "a | c", "b" ]          (candidates are sorted highest version first)
//!
//! The only single-package root requirement is "b", its first-ranked candidate is b=2, and
//! {a=1, b=2} (or {c=1, b=2}) is a valid solution that contains it.  The solver returns
//! {a=2, b=1}: decide() treats the union root requirement like any other explicit requirement
//! and takes the root's requirements in the order they were encoded (src/solver/mod.rs:745,
//! tie-breaking 853-866: a later requirement only replaces an earlier one when its package has a
//! strictly higher activity AND strictly fewer candidates), so "a | c" is decided first, a=2 is
//! installed and its requirement forces b=1.  With the two root requirements listed the other way
//! round the solver returns {b=2, a=1}.
//!
//! Copy to tests/ and run: cargo test --offline --test repro_c08x_union_root_first
//! The test FAILS on the current source (98c0f66).
use std::{any::Any, fmt::Display};

use resolvo::{
    Candidates, Dependencies, DependencyProvider, HintDependenciesAvailable, Interner,
    KnownDependencies, NameId, Problem, Requirement, SolvableId, Solver, SolverCache, StringId,
    VersionSetId, VersionSetUnionId,
    utils::{Pool, VersionSet},
};

/// half-open version range
#[derive(Clone, Debug, PartialEq, Eq, Hash)]
struct Range(u32, u32);
impl VersionSet for Range {
    type V = u32;
}
impl Display for Range {
    fn fmt(&self, f: &mut std::fmt::Formatter<'_>) -> std::fmt::Result {
        write!(f, "{}..{}", self.0, self.1)
    }
}

struct Provider {
    pool: Pool<Range, String>,
    /// `Pool::intern_solvable` allocates a new id on every call
    interned: std::cell::RefCell<std::collections::HashMap<(String, u32), SolvableId>>,
    /// (name, version, requirements as (name, lo, hi))
    packages: Vec<(&'static str, u32, Vec<(&'static str, u32, u32)>)>,
}

impl Provider {
    fn vs(&self, name: &str, lo: u32, hi: u32) -> VersionSetId {
        let n = self.pool.intern_package_name(name.to_string());
        self.pool.intern_version_set(n, Range(lo, hi))
    }
    fn solvable(&self, name: &str, v: u32) -> SolvableId {
        let n = self.pool.intern_package_name(name.to_string());
        *self
            .interned
            .borrow_mut()
            .entry((name.to_string(), v))
            .or_insert_with(|| self.pool.intern_solvable(n, v))
    }
    fn describe(&self, s: SolvableId) -> (String, u32) {
        let sv = self.pool.resolve_solvable(s);
        (self.pool.resolve_package_name(sv.name).clone(), sv.record)
    }
}

impl Interner for Provider {
    fn display_solvable(&self, solvable: SolvableId) -> impl Display + '_ {
        let (n, v) = self.describe(solvable);
        format!("{n}={v}")
    }
    fn display_name(&self, name: NameId) -> impl Display + '_ {
        self.pool.resolve_package_name(name).clone()
    }
    fn display_version_set(&self, version_set: VersionSetId) -> impl Display + '_ {
        self.pool.resolve_version_set(version_set).clone()
    }
    fn display_string(&self, string_id: StringId) -> impl Display + '_ {
        self.pool.resolve_string(string_id).to_owned()
    }
    fn version_set_name(&self, version_set: VersionSetId) -> NameId {
        self.pool.resolve_version_set_package_name(version_set)
    }
    fn solvable_name(&self, solvable: SolvableId) -> NameId {
        self.pool.resolve_solvable(solvable).name
    }
    fn version_sets_in_union(
        &self,
        version_set_union: VersionSetUnionId,
    ) -> impl Iterator<Item = VersionSetId> {
        self.pool.resolve_version_set_union(version_set_union)
    }
}

impl DependencyProvider for Provider {
    async fn filter_candidates(
        &self,
        candidates: &[SolvableId],
        version_set: VersionSetId,
        inverse: bool,
    ) -> Vec<SolvableId> {
        let r = self.pool.resolve_version_set(version_set);
        candidates
            .iter()
            .copied()
            .filter(|s| {
                let v = self.pool.resolve_solvable(*s).record;
                (r.0 <= v && v < r.1) != inverse
            })
            .collect()
    }

    async fn get_candidates(&self, name: NameId) -> Option<Candidates> {
        let name = self.pool.resolve_package_name(name).clone();
        let candidates: Vec<SolvableId> = self
            .packages
            .iter()
            .filter(|p| p.0 == name)
            .map(|p| self.solvable(p.0, p.1))
            .collect();
        if candidates.is_empty() {
            return None;
        }
        Some(Candidates {
            candidates,
            hint_dependencies_available: HintDependenciesAvailable::None,
            ..Candidates::default()
        })
    }

    /// highest version first
    async fn sort_candidates(&self, _solver: &SolverCache<Self>, solvables: &mut [SolvableId]) {
        solvables.sort_by_key(|s| std::cmp::Reverse(self.pool.resolve_solvable(*s).record));
    }

    async fn get_dependencies(&self, solvable: SolvableId) -> Dependencies {
        let (n, v) = self.describe(solvable);
        let p = self.packages.iter().find(|p| p.0 == n && p.1 == v).unwrap();
        Dependencies::Known(KnownDependencies {
            requirements: p.2.iter().map(|(n, lo, hi)| self.vs(n, *lo, *hi).into()).collect(),
            constrains: vec![],
        })
    }

    fn should_cancel_with_value(&self) -> Option<Box<dyn Any>> {
        None
    }
}

fn universe() -> Provider {
    Provider {
        pool: Pool::new(),
        interned: Default::default(),
        packages: vec![
            ("a", 1, vec![]),
            ("a", 2, vec![("b", 1, 2)]),
            ("b", 1, vec![]),
            ("b", 2, vec![]),
            ("c", 1, vec![]),
        ],
    }
}

fn solve(union_first: bool) -> Vec<(String, u32)> {
    let provider = universe();
    let a_or_c: Requirement = {
        let a = provider.vs("a", 0, 100);
        let c = provider.vs("c", 0, 100);
        provider.pool.intern_version_set_union(a, [c].into_iter()).into()
    };
    let b: Requirement = provider.vs("b", 0, 100).into();
    let requirements = if union_first { vec![a_or_c, b] } else { vec![b, a_or_c] };
    let mut solver = Solver::new(provider);
    let solution = solver
        .solve(Problem::new().requirements(requirements))
        .expect("solvable");
    let mut solution: Vec<_> = solution.iter().map(|s| solver.provider().describe(*s)).collect();
    solution.sort();
    solution
}

#[test]
fn single_root_requirement_listed_first_gets_its_best_candidate() {
    // passes: b=2 is chosen, then the union falls back to a=1
    assert_eq!(solve(false), vec![("a".to_string(), 1), ("b".to_string(), 2)]);
}

#[test]
fn single_root_requirement_gets_its_best_candidate_although_a_union_is_listed_first() {
    // {a=1, b=2} and {c=1, b=2} are valid and contain the first-ranked candidate b=2 of the only
    // single-package root requirement
    let solution = solve(true);
    assert!(
        solution.contains(&("b".to_string(), 2)),
        "the direct requirement on b was downgraded: {solution:?}"
    );
}
