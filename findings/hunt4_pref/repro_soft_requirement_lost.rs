//! BY-CATCH of the fourth hunt (not one of the properties C05/C07/C08/C09; the second hunt's
//! harness already had an optional SOFT-LOST check, so this is probably known): a soft
//! requirement that CAN be installed is silently left out.
//!
//! Universe (candidates sorted highest version first)
//!     s=1  requires a
//!     a=2  requires x, requires y        a=1  (no dependencies)
//!     x=1  constrains y 5..6   (no such y)
//!     y=1
//!     no root requirements, soft requirements [s=1]
//!
//! {s=1, a=1} is a valid selection, `solve` returns [].  The solver installs s=1 (level 2) and
//! decides a=2, x=1, y=1; the constrains clause of x=1 that is added then invalidates the partial
//! solution and the run restarts.  s=1 is installed again, a=2 is decided (level 3), x=1 and y=1
//! are propagated and conflict; the learnt clause is the unit clause (NOT a=2).  `analyze`
//! back-jumps to `max(0, 1, starting_level)` = 1 = the level at which the run for s=1 started
//! (src/solver/mod.rs:1461), which also undoes s=1 itself ("Backtracked from 3 -> 1").  Back in
//! `run_sat` (mod.rs:504-541) `resolve_dependencies` returns level 1, there is nothing left to
//! decide and no newly selected solvable, so `run_sat` returns Ok(true) - "solution is
//! complete" - without s=1 being assigned at all: only the top of the loop (mod.rs:414-442)
//! installs `root_solvable`, and it is not reached again.
//!
//! Copy to tests/ and run: cargo test --offline --test repro_soft_requirement_lost
//! The test FAILS on the current source (98c0f66).
use std::{any::Any, fmt::Display};

use resolvo::{
    Candidates, Dependencies, DependencyProvider, HintDependenciesAvailable, Interner,
    KnownDependencies, NameId, Problem, SolvableId, Solver, SolverCache, StringId,
    VersionSetId, VersionSetUnionId,
    utils::{Pool, VersionSet},
};

/// half-open version range
#[derive(Clone, Debug, PartialEq, Eq, Hash)]
struct Range(u32, u32);
impl VersionSet for Range {
    type V = u32;
}
impl Display for Range {
    fn fmt(&self, f: &mut std::fmt::Formatter<'_>) -> std::fmt::Result {
        write!(f, "{}..{}", self.0, self.1)
    }
}

struct Provider {
    pool: Pool<Range, String>,
    /// `Pool::intern_solvable` allocates a new id on every call
    interned: std::cell::RefCell<std::collections::HashMap<(String, u32), SolvableId>>,
    /// (name, version, requirements as (name, lo, hi), constrains as (name, lo, hi))
    packages: Vec<(
        &'static str,
        u32,
        Vec<(&'static str, u32, u32)>,
        Vec<(&'static str, u32, u32)>,
    )>,
}

impl Provider {
    fn vs(&self, name: &str, lo: u32, hi: u32) -> VersionSetId {
        let n = self.pool.intern_package_name(name.to_string());
        self.pool.intern_version_set(n, Range(lo, hi))
    }
    fn solvable(&self, name: &str, v: u32) -> SolvableId {
        let n = self.pool.intern_package_name(name.to_string());
        *self
            .interned
            .borrow_mut()
            .entry((name.to_string(), v))
            .or_insert_with(|| self.pool.intern_solvable(n, v))
    }
    fn describe(&self, s: SolvableId) -> (String, u32) {
        let sv = self.pool.resolve_solvable(s);
        (self.pool.resolve_package_name(sv.name).clone(), sv.record)
    }
}

impl Interner for Provider {
    fn display_solvable(&self, solvable: SolvableId) -> impl Display + '_ {
        let (n, v) = self.describe(solvable);
        format!("{n}={v}")
    }
    fn display_name(&self, name: NameId) -> impl Display + '_ {
        self.pool.resolve_package_name(name).clone()
    }
    fn display_version_set(&self, version_set: VersionSetId) -> impl Display + '_ {
        self.pool.resolve_version_set(version_set).clone()
    }
    fn display_string(&self, string_id: StringId) -> impl Display + '_ {
        self.pool.resolve_string(string_id).to_owned()
    }
    fn version_set_name(&self, version_set: VersionSetId) -> NameId {
        self.pool.resolve_version_set_package_name(version_set)
    }
    fn solvable_name(&self, solvable: SolvableId) -> NameId {
        self.pool.resolve_solvable(solvable).name
    }
    fn version_sets_in_union(
        &self,
        version_set_union: VersionSetUnionId,
    ) -> impl Iterator<Item = VersionSetId> {
        self.pool.resolve_version_set_union(version_set_union)
    }
}

impl DependencyProvider for Provider {
    async fn filter_candidates(
        &self,
        candidates: &[SolvableId],
        version_set: VersionSetId,
        inverse: bool,
    ) -> Vec<SolvableId> {
        let r = self.pool.resolve_version_set(version_set);
        candidates
            .iter()
            .copied()
            .filter(|s| {
                let v = self.pool.resolve_solvable(*s).record;
                (r.0 <= v && v < r.1) != inverse
            })
            .collect()
    }

    async fn get_candidates(&self, name: NameId) -> Option<Candidates> {
        let name = self.pool.resolve_package_name(name).clone();
        let candidates: Vec<SolvableId> = self
            .packages
            .iter()
            .filter(|p| p.0 == name)
            .map(|p| self.solvable(p.0, p.1))
            .collect();
        if candidates.is_empty() {
            return None;
        }
        Some(Candidates {
            candidates,
            hint_dependencies_available: HintDependenciesAvailable::None,
            ..Candidates::default()
        })
    }

    /// highest version first
    async fn sort_candidates(&self, _solver: &SolverCache<Self>, solvables: &mut [SolvableId]) {
        solvables.sort_by_key(|s| std::cmp::Reverse(self.pool.resolve_solvable(*s).record));
    }

    async fn get_dependencies(&self, solvable: SolvableId) -> Dependencies {
        let (n, v) = self.describe(solvable);
        let p = self.packages.iter().find(|p| p.0 == n && p.1 == v).unwrap();
        Dependencies::Known(KnownDependencies {
            requirements: p.2.iter().map(|(n, lo, hi)| self.vs(n, *lo, *hi).into()).collect(),
            constrains: p.3.iter().map(|(n, lo, hi)| self.vs(n, *lo, *hi)).collect(),
        })
    }

    fn should_cancel_with_value(&self) -> Option<Box<dyn Any>> {
        None
    }
}

fn universe() -> Provider {
    Provider {
        pool: Pool::new(),
        interned: Default::default(),
        packages: vec![
            ("s", 1, vec![("a", 0, 100)], vec![]),
            ("a", 1, vec![], vec![]),
            ("a", 2, vec![("x", 0, 100), ("y", 0, 100)], vec![]),
            ("x", 1, vec![], vec![("y", 5, 6)]),
            ("y", 1, vec![], vec![]),
        ],
    }
}

#[test]
fn installable_soft_requirement_is_installed() {
    let provider = universe();
    let soft = vec![provider.solvable("s", 1)];
    let mut solver = Solver::new(provider);
    let solution = solver
        .solve(Problem::new().soft_requirements(soft))
        .expect("there are no hard requirements");
    let mut solution: Vec<_> = solution.iter().map(|s| solver.provider().describe(*s)).collect();
    solution.sort();
    assert_eq!(solution, vec![("a".to_string(), 1), ("s".to_string(), 1)]);
}
