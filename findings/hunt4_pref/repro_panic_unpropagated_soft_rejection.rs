//! BY-CATCH of the fourth hunt (not one of the properties C05/C07/C08/C09): `Solver::solve`
//! panics with
//!   "internal error: entered unreachable code: when we get here it means that all candidates
//!    have been assigned false ..."                                  (src/solver/mod.rs:831)
//! on a problem that only consists of soft requirements, none of which can be installed (the
//! correct answer is Ok([])).  No hints, synchronous provider.
//!
//! Universe (candidates sorted highest version first)
//!     p1=1  requires p0 (p0 has no candidates)
//!     p1=3  requires p2            constrains p4 3..4
//!     p2=1  requires p0
//!     p2=3  requires p3
//!     p3=1  requires p4            p3=2  requires p4
//!     p4=1  requires p2            constrains p2 1..2
//!     p4=2  requires p1 3..4
//!     soft requirements [p2=3, p3=1, p3=2, p1=1, p1=3], no root requirements
//!
//! Cause: a soft requirement that cannot be installed is given up by
//! `run_sat_process_unsolvable` (src/solver/mod.rs:626-639), which pushes the decision
//! `solvable = false` on the decision stack WITHOUT propagating it; it is meant to be propagated
//! by the first `propagate()` of the next `run_sat`.  When the next soft requirement fails before
//! the propagation loop runs (here p1=1: `decide_assertions`, mod.rs:1062, reports the conflict
//! of its requirement without candidates first, `propagate` returns early), the following
//! `undo_until` -> `DecisionTracker::undo_last` sets `propagate_index = self.stack.len()`
//! (src/solver/decision_tracker.rs:85), which marks the still unpropagated decision (p3=2 =
//! false) as propagated.  It never is: the clause `p2=3 requires p3` keeps watching two false
//! literals, p2=3 is later set to true (required by p1=3) without any conflict, and `decide()`
//! finds a selected solvable all of whose candidates are false.
//!
//! Copy to tests/ and run: cargo test --offline --test repro_panic_unpropagated_soft_rejection
//! The test FAILS (panics inside the solver) on the current source (98c0f66).
use std::{any::Any, fmt::Display};

use resolvo::{
    Candidates, Dependencies, DependencyProvider, HintDependenciesAvailable, Interner,
    KnownDependencies, NameId, Problem, SolvableId, Solver, SolverCache, StringId,
    VersionSetId, VersionSetUnionId,
    utils::{Pool, VersionSet},
};

/// half-open version range
#[derive(Clone, Debug, PartialEq, Eq, Hash)]
struct Range(u32, u32);
impl VersionSet for Range {
    type V = u32;
}
impl Display for Range {
    fn fmt(&self, f: &mut std::fmt::Formatter<'_>) -> std::fmt::Result {
        write!(f, "{}..{}", self.0, self.1)
    }
}

struct Provider {
    pool: Pool<Range, String>,
    /// `Pool::intern_solvable` allocates a new id on every call
    interned: std::cell::RefCell<std::collections::HashMap<(String, u32), SolvableId>>,
    /// (name, version, requirements as (name, lo, hi), constrains as (name, lo, hi))
    packages: Vec<(
        &'static str,
        u32,
        Vec<(&'static str, u32, u32)>,
        Vec<(&'static str, u32, u32)>,
    )>,
}

impl Provider {
    fn vs(&self, name: &str, lo: u32, hi: u32) -> VersionSetId {
        let n = self.pool.intern_package_name(name.to_string());
        self.pool.intern_version_set(n, Range(lo, hi))
    }
    fn solvable(&self, name: &str, v: u32) -> SolvableId {
        let n = self.pool.intern_package_name(name.to_string());
        *self
            .interned
            .borrow_mut()
            .entry((name.to_string(), v))
            .or_insert_with(|| self.pool.intern_solvable(n, v))
    }
    fn describe(&self, s: SolvableId) -> (String, u32) {
        let sv = self.pool.resolve_solvable(s);
        (self.pool.resolve_package_name(sv.name).clone(), sv.record)
    }
}

impl Interner for Provider {
    fn display_solvable(&self, solvable: SolvableId) -> impl Display + '_ {
        let (n, v) = self.describe(solvable);
        format!("{n}={v}")
    }
    fn display_name(&self, name: NameId) -> impl Display + '_ {
        self.pool.resolve_package_name(name).clone()
    }
    fn display_version_set(&self, version_set: VersionSetId) -> impl Display + '_ {
        self.pool.resolve_version_set(version_set).clone()
    }
    fn display_string(&self, string_id: StringId) -> impl Display + '_ {
        self.pool.resolve_string(string_id).to_owned()
    }
    fn version_set_name(&self, version_set: VersionSetId) -> NameId {
        self.pool.resolve_version_set_package_name(version_set)
    }
    fn solvable_name(&self, solvable: SolvableId) -> NameId {
        self.pool.resolve_solvable(solvable).name
    }
    fn version_sets_in_union(
        &self,
        version_set_union: VersionSetUnionId,
    ) -> impl Iterator<Item = VersionSetId> {
        self.pool.resolve_version_set_union(version_set_union)
    }
}

impl DependencyProvider for Provider {
    async fn filter_candidates(
        &self,
        candidates: &[SolvableId],
        version_set: VersionSetId,
        inverse: bool,
    ) -> Vec<SolvableId> {
        let r = self.pool.resolve_version_set(version_set);
        candidates
            .iter()
            .copied()
            .filter(|s| {
                let v = self.pool.resolve_solvable(*s).record;
                (r.0 <= v && v < r.1) != inverse
            })
            .collect()
    }

    async fn get_candidates(&self, name: NameId) -> Option<Candidates> {
        let name = self.pool.resolve_package_name(name).clone();
        let candidates: Vec<SolvableId> = self
            .packages
            .iter()
            .filter(|p| p.0 == name)
            .map(|p| self.solvable(p.0, p.1))
            .collect();
        if candidates.is_empty() {
            return None;
        }
        Some(Candidates {
            candidates,
            hint_dependencies_available: HintDependenciesAvailable::None,
            ..Candidates::default()
        })
    }

    /// highest version first
    async fn sort_candidates(&self, _solver: &SolverCache<Self>, solvables: &mut [SolvableId]) {
        solvables.sort_by_key(|s| std::cmp::Reverse(self.pool.resolve_solvable(*s).record));
    }

    async fn get_dependencies(&self, solvable: SolvableId) -> Dependencies {
        let (n, v) = self.describe(solvable);
        let p = self.packages.iter().find(|p| p.0 == n && p.1 == v).unwrap();
        Dependencies::Known(KnownDependencies {
            requirements: p.2.iter().map(|(n, lo, hi)| self.vs(n, *lo, *hi).into()).collect(),
            constrains: p.3.iter().map(|(n, lo, hi)| self.vs(n, *lo, *hi)).collect(),
        })
    }

    fn should_cancel_with_value(&self) -> Option<Box<dyn Any>> {
        None
    }
}

fn universe() -> Provider {
    Provider {
        pool: Pool::new(),
        interned: Default::default(),
        packages: vec![
            ("p1", 1, vec![("p0", 0, 100)], vec![]),
            ("p1", 3, vec![("p2", 0, 100)], vec![("p4", 3, 4)]),
            ("p2", 1, vec![("p0", 0, 100)], vec![]),
            ("p2", 3, vec![("p3", 0, 100)], vec![]),
            ("p3", 1, vec![("p4", 0, 100)], vec![]),
            ("p3", 2, vec![("p4", 0, 100)], vec![]),
            ("p4", 1, vec![("p2", 0, 100)], vec![("p2", 1, 2)]),
            ("p4", 2, vec![("p1", 3, 4)], vec![]),
        ],
    }
}

#[test]
fn soft_requirements_that_cannot_be_installed_are_skipped_without_panic() {
    let provider = universe();
    let soft: Vec<SolvableId> = [("p2", 3), ("p3", 1), ("p3", 2), ("p1", 1), ("p1", 3)]
        .iter()
        .map(|(n, v)| provider.solvable(n, *v))
        .collect();
    let mut solver = Solver::new(provider);
    let solution = solver
        .solve(Problem::new().soft_requirements(soft))
        .expect("there are no hard requirements");
    let solution: Vec<_> = solution.iter().map(|s| solver.provider().describe(*s)).collect();
    // none of the soft requirements can be installed
    assert_eq!(solution, vec![]);
}
