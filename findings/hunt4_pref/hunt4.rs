//! Randomized differential harness (fourth hunt): preference / minimality / laziness properties.
//!
//! Properties checked (records C05, C07, C08, C09), each against an oracle that does not share
//! code with the solver:
//!  C05  no extraneous solvables: reachability over the selected set only
//!  C07  conflict-free problems (greedy closure of first-ranked candidates is a valid selection in
//!       which every requirement is met only by its own first choice): solution == that closure
//!  C08  root requirements (single version sets) get their first-ranked candidate whenever a brute
//!       force search finds a valid selection that contains all of them
//!  C09  (a) without hints every provider call is caused by something obtained before, at most
//!       once per solver; (b) on conflict-free problems the calls are exactly those for the
//!       solution / the names it and the root mention
//! plus validity of every solution (sanity) and no panic.
//!
//! Run e.g.
//!   HUNT_MODE=0 HUNT_CASES=200000 HUNT_SEED=1 cargo test --offline --release --test hunt4 random_search -- --nocapture
//!   HUNT_MODE=1 HUNT_SHRINK=1234 cargo test --offline --release --test hunt4 shrink_seed -- --nocapture
//!   HUNT_FILE=case.txt [HUNT_TRACE=1] cargo test --offline --test hunt4 run_file -- --nocapture
//! modes: 0 = no soft requirements, 1 = soft requirements, 2 = several problems on one solver
use std::{
    any::Any,
    cell::RefCell,
    collections::{BTreeMap, BTreeSet, HashMap},
    fmt::{Display, Write as _},
    panic::{AssertUnwindSafe, catch_unwind},
    sync::{Arc, Mutex},
    time::{Duration, Instant},
};

use resolvo::{
    Candidates, Dependencies, DependencyProvider, HintDependenciesAvailable, Interner,
    KnownDependencies, NameId, Problem, Requirement, SolvableId, Solver, SolverCache, StringId,
    UnsolvableOrCancelled, VersionSetId, VersionSetUnionId,
    utils::{Pool, VersionSet},
};

// ---------------------------------------------------------------------------
// Universe description (plain data, printable)
// ---------------------------------------------------------------------------

/// half-open version range [lo, hi) of package `name`
#[derive(Clone, Debug, PartialEq, Eq, Hash, PartialOrd, Ord)]
pub struct Spec {
    pub name: usize,
    pub lo: u32,
    pub hi: u32,
}

#[derive(Clone, Debug, Default)]
pub struct Pkg {
    pub name: usize,
    pub version: u32,
    /// each requirement is a union of specs
    pub deps: Vec<Vec<Spec>>,
    pub constrains: Vec<Spec>,
    /// `Dependencies::Unknown`
    pub unknown: bool,
}

#[derive(Clone, Debug, PartialEq, Eq)]
pub enum Hint {
    None,
    All,
    Some(Vec<u32>),
}

#[derive(Clone, Debug, Default)]
pub struct Prob {
    pub root_reqs: Vec<Vec<Spec>>,
    pub root_constraints: Vec<Spec>,
    pub soft: Vec<(usize, u32)>,
}

#[derive(Clone, Debug, Default)]
pub struct Universe {
    pub n_names: usize,
    pub pkgs: Vec<Pkg>,
    pub favored: BTreeMap<usize, u32>,
    pub locked: BTreeMap<usize, u32>,
    pub excluded: BTreeSet<(usize, u32)>,
    pub hints: BTreeMap<usize, Hint>,
    /// 0 = names interned in natural order, solvables interned lazily
    pub id_seed: u64,
    /// 0 = candidates listed in the order of `pkgs`
    pub cand_seed: u64,
    /// 0 = highest version first, 1 = lowest first, 2 = keep order, 3 = pseudo random
    pub sort_mode: u8,
    /// the problems (one, or several for the reuse scenario)
    pub probs: Vec<Prob>,
}

fn nm(i: usize) -> String {
    format!("p{i}")
}

impl Display for Spec {
    fn fmt(&self, f: &mut std::fmt::Formatter<'_>) -> std::fmt::Result {
        write!(f, "{} {}..{}", nm(self.name), self.lo, self.hi)
    }
}

fn union_str(u: &[Spec]) -> String {
    u.iter()
        .map(|s| s.to_string())
        .collect::<Vec<_>>()
        .join(" | ")
}

fn quoted_unions(v: &[Vec<Spec>]) -> String {
    v.iter()
        .map(|u| format!("\"{}\"", union_str(u)))
        .collect::<Vec<_>>()
        .join(", ")
}
fn quoted_specs(v: &[Spec]) -> String {
    v.iter()
        .map(|c| format!("\"{c}\""))
        .collect::<Vec<_>>()
        .join(", ")
}

impl Universe {
    pub fn dump(&self) -> String {
        let mut s = String::new();
        for p in &self.pkgs {
            writeln!(
                s,
                "  {}={}  requires [{}]  constrains [{}]{}",
                nm(p.name),
                p.version,
                quoted_unions(&p.deps),
                quoted_specs(&p.constrains),
                if p.unknown { "  UNKNOWN" } else { "" }
            )
            .unwrap();
        }
        for (n, v) in &self.locked {
            writeln!(s, "  LOCK {}={v}", nm(*n)).unwrap();
        }
        for (n, v) in &self.favored {
            writeln!(s, "  FAVOR {}={v}", nm(*n)).unwrap();
        }
        for (n, v) in &self.excluded {
            writeln!(s, "  EXCLUDE {}={v}", nm(*n)).unwrap();
        }
        for (n, h) in &self.hints {
            match h {
                Hint::None => {}
                Hint::All => writeln!(s, "  HINT {} all", nm(*n)).unwrap(),
                Hint::Some(v) => writeln!(
                    s,
                    "  HINT {} some {}",
                    nm(*n),
                    v.iter().map(|x| x.to_string()).collect::<Vec<_>>().join(",")
                )
                .unwrap(),
            }
        }
        writeln!(
            s,
            "  ORDER id_seed={} cand_seed={} sort={}",
            self.id_seed, self.cand_seed, self.sort_mode
        )
        .unwrap();
        for p in &self.probs {
            writeln!(s, "  PROBLEM").unwrap();
            writeln!(s, "  ROOT requires [{}]", quoted_unions(&p.root_reqs)).unwrap();
            writeln!(s, "  ROOT constrains [{}]", quoted_specs(&p.root_constraints)).unwrap();
            writeln!(
                s,
                "  SOFT [{}]",
                p.soft
                    .iter()
                    .map(|(n, v)| format!("{}={}", nm(*n), v))
                    .collect::<Vec<_>>()
                    .join(", ")
            )
            .unwrap();
        }
        s
    }
}

// ---------------------------------------------------------------------------
// Variants: how the same universe is presented to the solver
// ---------------------------------------------------------------------------

#[derive(Clone, Copy, Debug, PartialEq, Eq)]
pub enum HintMode {
    Off,
    FromUniverse,
    AllOn,
}

#[derive(Clone, Copy, Debug)]
pub struct Variant {
    pub label: &'static str,
    pub hints: HintMode,
    pub own_order: bool,
    /// the provider's async functions yield a pseudo random number of times
    pub yields: bool,
    /// `sort_candidates` looks at the dependencies of the candidates and at the candidates of
    /// the packages they depend on through the `SolverCache` it is given (as conda-style
    /// providers do)
    pub callbacks: bool,
}

pub const VARIANTS: &[Variant] = &[
    Variant { label: "V0:nohint/natural", hints: HintMode::Off, own_order: false, yields: false, callbacks: false },
    Variant { label: "V1:hints/natural", hints: HintMode::FromUniverse, own_order: false, yields: false, callbacks: false },
    Variant { label: "V2:allhints/natural", hints: HintMode::AllOn, own_order: false, yields: false, callbacks: false },
    Variant { label: "V3:hints/permuted", hints: HintMode::FromUniverse, own_order: true, yields: false, callbacks: false },
    Variant { label: "V4:nohint/permuted", hints: HintMode::Off, own_order: true, yields: false, callbacks: false },
    Variant { label: "V5:hints/permuted/yield", hints: HintMode::FromUniverse, own_order: true, yields: true, callbacks: false },
    Variant { label: "V6:allhints/natural/yield", hints: HintMode::AllOn, own_order: false, yields: true, callbacks: false },
    Variant { label: "V7:hints/permuted/callbacks", hints: HintMode::FromUniverse, own_order: true, yields: false, callbacks: true },
    Variant { label: "V8:nohint/natural/callbacks/yield", hints: HintMode::Off, own_order: false, yields: true, callbacks: true },
    Variant { label: "V9:nohint/permuted/yield", hints: HintMode::Off, own_order: true, yields: true, callbacks: false },
];

impl Variant {
    /// C09 speaks about providers without hints; a provider that itself asks the solver cache
    /// for data (callbacks) causes requests on its own
    pub fn lazy_observable(&self) -> bool {
        self.hints == HintMode::Off && !self.callbacks
    }
}

// ---------------------------------------------------------------------------
// Ground truth of the presentation: listing order and ranking of the candidates of a package.
// Shared by the provider (it answers get_candidates / sort_candidates with them) and the oracles.
// ---------------------------------------------------------------------------

/// versions of package `n` in the order `get_candidates` lists them
pub fn listing(u: &Universe, own_order: bool, n: usize) -> Vec<u32> {
    let mut versions: Vec<u32> = u.pkgs.iter().filter(|p| p.name == n).map(|p| p.version).collect();
    if own_order && u.cand_seed != 0 {
        Rng::new(u.cand_seed ^ (n as u64) << 20).shuffle(&mut versions);
    }
    versions
}

/// total order used by `sort_candidates` (smaller = preferred)
pub fn sort_key(u: &Universe, own_order: bool, n: usize, v: u32) -> (u64, u64) {
    let mode = if own_order { u.sort_mode } else { 0 };
    match mode {
        0 => (u64::MAX - v as u64, 0),
        1 => (v as u64, 0),
        // position in the listing
        2 => (listing(u, own_order, n).iter().position(|x| *x == v).unwrap_or(usize::MAX) as u64, v as u64),
        _ => ((v as u64 ^ u.cand_seed ^ ((n as u64) << 32)).wrapping_mul(0x9E3779B97F4A7C15) >> 7, v as u64),
    }
}

/// The candidates of `spec` in the order the solver is supposed to try them: provider order,
/// the favored candidate of the package (if it matches) first.
pub fn ranked(u: &Universe, own_order: bool, spec: &Spec) -> Vec<u32> {
    let mut vs: Vec<u32> = listing(u, own_order, spec.name)
        .into_iter()
        .filter(|v| spec.lo <= *v && *v < spec.hi)
        .collect();
    vs.sort_by_key(|v| sort_key(u, own_order, spec.name, *v));
    if let Some(f) = u.favored.get(&spec.name) {
        if let Some(pos) = vs.iter().position(|v| v == f) {
            let f = vs.remove(pos);
            vs.insert(0, f);
        }
    }
    vs
}

/// first-ranked candidate of a requirement: first candidate of the first union member that has any
pub fn first_choice(u: &Universe, own_order: bool, req: &[Spec]) -> Option<(usize, u32)> {
    req.iter().find_map(|s| ranked(u, own_order, s).first().map(|v| (s.name, *v)))
}

/// A runtime that simply polls the future until it is ready
pub struct Spin;
impl resolvo::runtime::AsyncRuntime for Spin {
    fn block_on<F: std::future::Future>(&self, f: F) -> F::Output {
        let mut f = std::pin::pin!(f);
        let mut cx = std::task::Context::from_waker(std::task::Waker::noop());
        let mut polls = 0u64;
        loop {
            if let std::task::Poll::Ready(v) = f.as_mut().poll(&mut cx) {
                return v;
            }
            polls += 1;
            assert!(polls < 50_000_000, "future never becomes ready");
        }
    }
}

struct YieldNow(bool);
impl std::future::Future for YieldNow {
    type Output = ();
    fn poll(
        mut self: std::pin::Pin<&mut Self>,
        cx: &mut std::task::Context<'_>,
    ) -> std::task::Poll<()> {
        if self.0 {
            std::task::Poll::Ready(())
        } else {
            self.0 = true;
            cx.waker().wake_by_ref();
            std::task::Poll::Pending
        }
    }
}

// ---------------------------------------------------------------------------
// xorshift
// ---------------------------------------------------------------------------

pub struct Rng(u64);
impl Rng {
    pub fn new(seed: u64) -> Self {
        let mut r = Rng(seed.wrapping_mul(0x9E3779B97F4A7C15) ^ 0xD1B54A32D192ED03);
        if r.0 == 0 {
            r.0 = 1;
        }
        for _ in 0..4 {
            r.next();
        }
        r
    }
    pub fn next(&mut self) -> u64 {
        let mut x = self.0;
        x ^= x << 13;
        x ^= x >> 7;
        x ^= x << 17;
        self.0 = x;
        x.wrapping_mul(0x2545F4914F6CDD1D)
    }
    pub fn below(&mut self, n: u64) -> u64 {
        (self.next() >> 11) % n
    }
    pub fn range(&mut self, lo: u64, hi_incl: u64) -> u64 {
        lo + self.below(hi_incl - lo + 1)
    }
    pub fn chance(&mut self, pct: u64) -> bool {
        self.below(100) < pct
    }
    pub fn shuffle<T>(&mut self, v: &mut [T]) {
        for i in (1..v.len()).rev() {
            let j = self.below(i as u64 + 1) as usize;
            v.swap(i, j);
        }
    }
}

// ---------------------------------------------------------------------------
// Provider
// ---------------------------------------------------------------------------

#[derive(Clone, Debug, PartialEq, Eq, Hash)]
pub struct R(u32, u32);
impl VersionSet for R {
    type V = u32;
}
impl Display for R {
    fn fmt(&self, f: &mut std::fmt::Formatter<'_>) -> std::fmt::Result {
        write!(f, "{}..{}", self.0, self.1)
    }
}

pub struct Prov {
    pool: Pool<R, String>,
    u: Universe,
    variant: Variant,
    interned: RefCell<HashMap<(NameId, u32), SolvableId>>,
    /// protocol violations of the solver observed by the provider
    pub complaints: RefCell<Vec<String>>,
    requested_candidates: RefCell<BTreeSet<usize>>,
    requested_deps: RefCell<BTreeSet<(usize, u32)>>,
    yield_state: std::cell::Cell<u64>,
    /// every get_candidates / get_dependencies call (entry and return)
    pub log: RefCell<Vec<Ev>>,
}

#[derive(Clone, Debug, PartialEq, Eq)]
pub enum Ev {
    /// start of the solve of problem #i
    Solve(usize),
    CandEnter(usize),
    CandRet(usize),
    DepsEnter(usize, u32),
    DepsRet(usize, u32),
}

impl Prov {
    async fn maybe_yield(&self) {
        if !self.variant.yields {
            return;
        }
        let mut x = self.yield_state.get();
        x ^= x << 13;
        x ^= x >> 7;
        x ^= x << 17;
        self.yield_state.set(x);
        for _ in 0..(x >> 20) % 4 {
            YieldNow(false).await;
        }
    }

    pub fn new(u: &Universe, variant: Variant) -> Self {
        let pool = Pool::new();
        let prov = Prov {
            pool,
            u: u.clone(),
            variant,
            interned: Default::default(),
            complaints: Default::default(),
            requested_candidates: Default::default(),
            requested_deps: Default::default(),
            yield_state: std::cell::Cell::new(u.cand_seed | 0x10),
            log: Default::default(),
        };
        if variant.own_order && u.id_seed != 0 {
            let mut r = Rng::new(u.id_seed);
            let mut names: Vec<usize> = (0..u.n_names).collect();
            r.shuffle(&mut names);
            for n in names {
                prov.pool.intern_package_name(nm(n));
            }
            let mut solvables: Vec<(usize, u32)> =
                u.pkgs.iter().map(|p| (p.name, p.version)).collect();
            r.shuffle(&mut solvables);
            for (n, v) in solvables {
                prov.solvable(n, v);
            }
        } else {
            for i in 0..u.n_names {
                prov.pool.intern_package_name(nm(i));
            }
        }
        prov
    }
    fn name_id(&self, n: usize) -> NameId {
        self.pool.intern_package_name(nm(n))
    }
    pub fn solvable(&self, n: usize, v: u32) -> SolvableId {
        let name = self.name_id(n);
        *self
            .interned
            .borrow_mut()
            .entry((name, v))
            .or_insert_with(|| self.pool.intern_solvable(name, v))
    }
    fn vs(&self, s: &Spec) -> VersionSetId {
        self.pool
            .intern_version_set(self.name_id(s.name), R(s.lo, s.hi))
    }
    pub fn req(&self, u: &[Spec]) -> Requirement {
        if u.len() == 1 {
            self.vs(&u[0]).into()
        } else {
            let mut it = u.iter().map(|s| self.vs(s));
            let first = it.next().unwrap();
            self.pool.intern_version_set_union(first, it).into()
        }
    }
    pub fn describe(&self, s: SolvableId) -> (usize, u32) {
        let sv = self.pool.resolve_solvable(s);
        let name = self.pool.resolve_package_name(sv.name);
        (name[1..].parse().unwrap(), sv.record)
    }
}

impl Interner for Prov {
    fn display_solvable(&self, solvable: SolvableId) -> impl Display + '_ {
        let s = self.pool.resolve_solvable(solvable);
        format!("{}={}", self.pool.resolve_package_name(s.name), s.record)
    }
    fn display_name(&self, name: NameId) -> impl Display + '_ {
        self.pool.resolve_package_name(name).clone()
    }
    fn display_version_set(&self, version_set: VersionSetId) -> impl Display + '_ {
        self.pool.resolve_version_set(version_set).clone()
    }
    fn display_string(&self, string_id: StringId) -> impl Display + '_ {
        self.pool.resolve_string(string_id).to_owned()
    }
    fn version_set_name(&self, version_set: VersionSetId) -> NameId {
        self.pool.resolve_version_set_package_name(version_set)
    }
    fn solvable_name(&self, solvable: SolvableId) -> NameId {
        self.pool.resolve_solvable(solvable).name
    }
    fn version_sets_in_union(
        &self,
        version_set_union: VersionSetUnionId,
    ) -> impl Iterator<Item = VersionSetId> {
        self.pool.resolve_version_set_union(version_set_union)
    }
}

impl DependencyProvider for Prov {
    async fn filter_candidates(
        &self,
        candidates: &[SolvableId],
        version_set: VersionSetId,
        inverse: bool,
    ) -> Vec<SolvableId> {
        self.maybe_yield().await;
        let r = self.pool.resolve_version_set(version_set);
        candidates
            .iter()
            .copied()
            .filter(|s| {
                let v = self.pool.resolve_solvable(*s).record;
                (r.0 <= v && v < r.1) != inverse
            })
            .collect()
    }

    async fn get_candidates(&self, name: NameId) -> Option<Candidates> {
        let pname = self.pool.resolve_package_name(name);
        let n: usize = pname[1..].parse().unwrap();
        if !self.requested_candidates.borrow_mut().insert(n) {
            self.complaints
                .borrow_mut()
                .push(format!("duplicate get_candidates({pname})"));
        }
        self.log.borrow_mut().push(Ev::CandEnter(n));
        self.maybe_yield().await;
        self.log.borrow_mut().push(Ev::CandRet(n));
        let versions = listing(&self.u, self.variant.own_order, n);
        if versions.is_empty() {
            return None;
        }
        let mut c = Candidates::default();
        for &v in &versions {
            let s = self.solvable(n, v);
            c.candidates.push(s);
            if self.u.favored.get(&n) == Some(&v) {
                c.favored = Some(s);
            }
            if self.u.locked.get(&n) == Some(&v) {
                c.locked = Some(s);
            }
            if self.u.excluded.contains(&(n, v)) {
                c.excluded.push((s, self.pool.intern_string("excluded")));
            }
        }
        for (en, ev) in &self.u.excluded {
            if *en == n && !versions.contains(ev) {
                c.excluded
                    .push((self.solvable(n, *ev), self.pool.intern_string("excluded")));
            }
        }
        if let Some(l) = self.u.locked.get(&n) {
            if !versions.contains(l) {
                c.locked = Some(self.solvable(n, *l));
            }
        }
        c.hint_dependencies_available = match self.variant.hints {
            HintMode::Off => HintDependenciesAvailable::None,
            HintMode::AllOn => HintDependenciesAvailable::All,
            HintMode::FromUniverse => match self.u.hints.get(&n) {
                None | Some(Hint::None) => HintDependenciesAvailable::None,
                Some(Hint::All) => HintDependenciesAvailable::All,
                Some(Hint::Some(vs)) => HintDependenciesAvailable::Some(
                    vs.iter().map(|v| self.solvable(n, *v)).collect(),
                ),
            },
        };
        Some(c)
    }

    async fn sort_candidates(&self, solver: &SolverCache<Self>, solvables: &mut [SolvableId]) {
        self.maybe_yield().await;
        if self.variant.callbacks {
            for &s in solvables.iter() {
                let names: Vec<NameId> = match solver.get_or_cache_dependencies(s).await {
                    Ok(Dependencies::Known(d)) => d
                        .requirements
                        .iter()
                        .flat_map(|r| match *r {
                            Requirement::Single(vs) => vec![vs],
                            Requirement::Union(u) => self.version_sets_in_union(u).collect(),
                        })
                        .map(|vs| self.version_set_name(vs))
                        .collect(),
                    _ => vec![],
                };
                for n in names {
                    let _ = solver.get_or_cache_candidates(n).await;
                }
            }
        }
        solvables.sort_by_key(|a| {
            let (n, v) = self.describe(*a);
            sort_key(&self.u, self.variant.own_order, n, v)
        });
    }

    async fn get_dependencies(&self, solvable: SolvableId) -> Dependencies {
        let (n, v) = self.describe(solvable);
        // (with `callbacks` the provider itself uses the cache concurrently with the solver;
        // `SolverCache::get_or_cache_dependencies` has no in-flight bookkeeping, so a second
        // request for the same solvable is expected there)
        if !self.requested_deps.borrow_mut().insert((n, v)) && !self.variant.callbacks {
            self.complaints
                .borrow_mut()
                .push(format!("duplicate get_dependencies({}={v})", nm(n)));
        }
        self.log.borrow_mut().push(Ev::DepsEnter(n, v));
        self.maybe_yield().await;
        self.log.borrow_mut().push(Ev::DepsRet(n, v));
        let Some(p) = self.u.pkgs.iter().find(|p| p.name == n && p.version == v) else {
            return Dependencies::Known(Default::default());
        };
        if p.unknown {
            return Dependencies::Unknown(self.pool.intern_string("unknown deps"));
        }
        Dependencies::Known(KnownDependencies {
            requirements: p.deps.iter().map(|u| self.req(u)).collect(),
            constrains: p.constrains.iter().map(|c| self.vs(c)).collect(),
        })
    }

    fn should_cancel_with_value(&self) -> Option<Box<dyn Any>> {
        None
    }
}

// ---------------------------------------------------------------------------
// Running
// ---------------------------------------------------------------------------

#[derive(Debug, Clone)]
pub enum Outcome {
    Ok(Vec<(usize, u32)>),
    /// Unsolvable; the string is a rendering failure, if any
    Unsolvable(Option<String>),
    Cancelled,
    Panic(String),
}

impl Outcome {
    fn verdict(&self) -> &'static str {
        match self {
            Outcome::Ok(_) => "Ok",
            Outcome::Unsolvable(_) => "Unsolvable",
            Outcome::Cancelled => "Cancelled",
            Outcome::Panic(_) => "Panic",
        }
    }
}

thread_local! {
    static LAST_PANIC: RefCell<Option<String>> = const { RefCell::new(None) };
    static QUIET: RefCell<bool> = const { RefCell::new(false) };
}

pub fn install_quiet_hook() {
    static ONCE: std::sync::Once = std::sync::Once::new();
    ONCE.call_once(|| {
        let prev = std::panic::take_hook();
        let prev = Arc::new(Mutex::new(prev));
        std::panic::set_hook(Box::new(move |info| {
            let quiet = QUIET.with(|q| *q.borrow());
            if quiet {
                let loc = info
                    .location()
                    .map(|l| format!("{}:{}:{}", l.file(), l.line(), l.column()))
                    .unwrap_or_default();
                let msg = if let Some(s) = info.payload().downcast_ref::<&str>() {
                    s.to_string()
                } else if let Some(s) = info.payload().downcast_ref::<String>() {
                    s.clone()
                } else {
                    "<non-string payload>".to_string()
                };
                let msg: String = msg.chars().take(160).collect();
                LAST_PANIC.with(|p| *p.borrow_mut() = Some(format!("{msg} @ {loc}")));
            } else {
                (prev.lock().unwrap())(info);
            }
        }));
    });
}

fn quietly<T>(f: impl FnOnce() -> T) -> Result<T, String> {
    install_quiet_hook();
    QUIET.with(|q| *q.borrow_mut() = true);
    let r = catch_unwind(AssertUnwindSafe(f));
    QUIET.with(|q| *q.borrow_mut() = false);
    r.map_err(|_| {
        LAST_PANIC
            .with(|p| p.borrow_mut().take())
            .unwrap_or_else(|| "<unknown>".into())
    })
}

// watchdog -----------------------------------------------------------------

static WATCH: Mutex<Option<(String, Instant)>> = Mutex::new(None);

fn watch(stage: String) {
    *WATCH.lock().unwrap() = Some((stage, Instant::now()));
}
fn unwatch() {
    *WATCH.lock().unwrap() = None;
}
pub fn start_watchdog() {
    static ONCE: std::sync::Once = std::sync::Once::new();
    ONCE.call_once(|| {
        let limit: u64 = std::env::var("HUNT_HANG_SECS")
            .ok()
            .and_then(|s| s.parse().ok())
            .unwrap_or(20);
        std::thread::spawn(move || {
            loop {
                std::thread::sleep(Duration::from_millis(500));
                let g = WATCH.lock().unwrap();
                if let Some((stage, t)) = &*g {
                    if t.elapsed() > Duration::from_secs(limit) {
                        println!("=== HANG (> {limit}s): {stage}");
                        eprintln!("=== HANG (> {limit}s): {stage}");
                        std::process::exit(3);
                    }
                }
            }
        });
    });
}

/// Renders the conflict in every available way; returns the first panic message
fn render(
    solver: &Solver<Prov, Spin>,
    conflict: &resolvo::conflict::Conflict,
) -> Option<String> {
    let r = quietly(|| {
        let s = conflict.display_user_friendly(solver).to_string();
        let g = conflict.graph(solver);
        let mut out = Vec::new();
        g.graphviz(&mut out, solver.provider(), true).unwrap();
        let mut out2 = Vec::new();
        g.graphviz(&mut out2, solver.provider(), false).unwrap();
        s.len() + out.len() + out2.len()
    });
    r.err()
}

fn solve_one(solver: &mut Solver<Prov, Spin>, p: &Prob) -> Outcome {
    let r = quietly(|| {
        let prov = solver.provider();
        let reqs: Vec<Requirement> = p.root_reqs.iter().map(|r| prov.req(r)).collect();
        let cons: Vec<VersionSetId> = p.root_constraints.iter().map(|c| prov.vs(c)).collect();
        let soft: Vec<SolvableId> = p.soft.iter().map(|(n, v)| prov.solvable(*n, *v)).collect();
        let problem = Problem::new()
            .requirements(reqs)
            .constraints(cons)
            .soft_requirements(soft);
        solver.solve(problem)
    });
    match r {
        Ok(Ok(s)) => Outcome::Ok(s.iter().map(|s| solver.provider().describe(*s)).collect()),
        Ok(Err(UnsolvableOrCancelled::Unsolvable(c))) => Outcome::Unsolvable(render(solver, &c)),
        Ok(Err(UnsolvableOrCancelled::Cancelled(_))) => Outcome::Cancelled,
        Err(m) => Outcome::Panic(m),
    }
}

pub struct RunResult {
    pub outs: Vec<Outcome>,
    pub complaints: Vec<String>,
    /// provider call log (one provider for all problems)
    pub log: Vec<Ev>,
}

/// Solves all problems of the universe on ONE solver (modes 0/1 have a single problem, so this
/// is a fresh solver there).
pub fn run(u: &Universe, variant: Variant, tag: &str) -> RunResult {
    let mut outs = vec![];
    let mut solver = Solver::new(Prov::new(u, variant)).with_runtime(Spin);
    for (i, p) in u.probs.iter().enumerate() {
        watch(format!("{tag} {} problem#{i}", variant.label));
        solver.provider().log.borrow_mut().push(Ev::Solve(i));
        let o = solve_one(&mut solver, p);
        let stop = matches!(o, Outcome::Panic(_));
        outs.push(o);
        if stop {
            break;
        }
    }
    unwatch();
    let complaints = solver.provider().complaints.borrow().clone();
    let log = solver.provider().log.borrow().clone();
    RunResult { outs, complaints, log }
}

// ---------------------------------------------------------------------------
// Independent checker + brute force reference
// ---------------------------------------------------------------------------

fn sat_spec(sol: &[(usize, u32)], s: &Spec) -> bool {
    sol.iter()
        .any(|(n, v)| *n == s.name && s.lo <= *v && *v < s.hi)
}
fn sat_union(sol: &[(usize, u32)], u: &[Spec]) -> bool {
    u.iter().any(|s| sat_spec(sol, s))
}
fn violates_constraint(sol: &[(usize, u32)], c: &Spec) -> Option<(usize, u32)> {
    sol.iter()
        .copied()
        .find(|(n, v)| *n == c.name && !(c.lo <= *v && *v < c.hi))
}

/// All violations of the solution (soft solvables are exempt from the lock / exclusion list
/// of their own package only)
pub fn validate(u: &Universe, p: &Prob, sol: &[(usize, u32)]) -> Vec<String> {
    let mut bad = vec![];
    for r in &p.root_reqs {
        if !sat_union(sol, r) {
            bad.push(format!("root requirement \"{}\" unsatisfied", union_str(r)));
        }
    }
    for c in &p.root_constraints {
        if let Some((n, v)) = violates_constraint(sol, c) {
            bad.push(format!("root constraint \"{c}\" violated by {}={v}", nm(n)));
        }
    }
    for (n, v) in sol {
        let is_soft = p.soft.contains(&(*n, *v));
        if let Some(pk) = u.pkgs.iter().find(|p| p.name == *n && p.version == *v) {
            if pk.unknown {
                bad.push(format!("selected {}={v} whose dependencies are Unknown", nm(*n)));
            } else {
                for r in &pk.deps {
                    if !sat_union(sol, r) {
                        bad.push(format!(
                            "{}={v}: requirement \"{}\" unsatisfied",
                            nm(*n),
                            union_str(r)
                        ));
                    }
                }
                for c in &pk.constrains {
                    if let Some((cn, cv)) = violates_constraint(sol, c) {
                        bad.push(format!(
                            "{}={v}: constrains \"{c}\" violated by {}={cv}",
                            nm(*n),
                            nm(cn)
                        ));
                    }
                }
            }
        } else {
            bad.push(format!("selected non-existing solvable {}={v}", nm(*n)));
        }
        if u.excluded.contains(&(*n, *v)) && !is_soft {
            bad.push(format!("selected excluded {}={v}", nm(*n)));
        }
        if let Some(l) = u.locked.get(n) {
            if l != v && !is_soft {
                bad.push(format!("selected {}={v} but locked to {l}", nm(*n)));
            }
        }
    }
    let mut seen = BTreeMap::new();
    for (n, v) in sol {
        if let Some(prev) = seen.insert(*n, *v) {
            if prev == *v {
                bad.push(format!("solvable {}={v} listed twice", nm(*n)));
            } else {
                bad.push(format!("two solvables of {}: {prev} and {v}", nm(*n)));
            }
        }
    }
    bad
}

/// Brute force: is there any valid selection for the hard problem (at most one version per
/// name, enumerated exhaustively)?  Returns a witness.
pub fn brute_force_slow(u: &Universe, p: &Prob) -> Option<Vec<(usize, u32)>> {
    // allowed versions per name
    let mut options: Vec<Vec<u32>> = vec![vec![]; u.n_names];
    for pk in &u.pkgs {
        if pk.unknown || u.excluded.contains(&(pk.name, pk.version)) {
            continue;
        }
        if let Some(l) = u.locked.get(&pk.name) {
            if *l != pk.version {
                continue;
            }
        }
        if !options[pk.name].contains(&pk.version) {
            options[pk.name].push(pk.version);
        }
    }
    let hard = Prob { soft: vec![], ..p.clone() };
    let mut sol: Vec<(usize, u32)> = vec![];
    fn rec(
        u: &Universe,
        hard: &Prob,
        options: &[Vec<u32>],
        i: usize,
        sol: &mut Vec<(usize, u32)>,
    ) -> bool {
        if i == options.len() {
            return validate(u, hard, sol).is_empty();
        }
        if rec(u, hard, options, i + 1, sol) {
            return true;
        }
        for &v in &options[i] {
            sol.push((i, v));
            if rec(u, hard, options, i + 1, sol) {
                return true;
            }
            sol.pop();
        }
        false
    }
    if rec(u, &hard, &options, 0, &mut sol) { Some(sol) } else { None }
}

/// The same with pruning: a partial selection (names < upto decided) is abandoned as soon as a
/// constraint between decided names is violated or a requirement that only refers to decided
/// names is unsatisfied.
pub fn brute_force(u: &Universe, p: &Prob) -> Option<Vec<(usize, u32)>> {
    brute_force_forced(u, p, &[])
}

/// `forced`: solvables that must be part of the selection
pub fn brute_force_forced(
    u: &Universe,
    p: &Prob,
    forced: &[(usize, u32)],
) -> Option<Vec<(usize, u32)>> {
    let mut options: Vec<Vec<u32>> = vec![vec![]; u.n_names];
    let mut idx: HashMap<(usize, u32), &Pkg> = HashMap::new();
    for pk in &u.pkgs {
        if pk.unknown || u.excluded.contains(&(pk.name, pk.version)) {
            continue;
        }
        if let Some(l) = u.locked.get(&pk.name) {
            if *l != pk.version {
                continue;
            }
        }
        if !options[pk.name].contains(&pk.version) {
            options[pk.name].push(pk.version);
            idx.insert((pk.name, pk.version), pk);
        }
    }
    fn spec_sat(sel: &[Option<u32>], s: &Spec) -> bool {
        matches!(sel[s.name], Some(v) if s.lo <= v && v < s.hi)
    }
    fn cons_ok(sel: &[Option<u32>], c: &Spec) -> bool {
        match sel[c.name] {
            Some(v) => c.lo <= v && v < c.hi,
            None => true,
        }
    }
    fn req_ok(sel: &[Option<u32>], r: &[Spec], upto: usize) -> bool {
        r.iter().any(|s| s.name >= upto) || r.iter().any(|s| spec_sat(sel, s))
    }
    struct Ctx<'a> {
        p: &'a Prob,
        options: Vec<Vec<u32>>,
        idx: HashMap<(usize, u32), &'a Pkg>,
        forced_names: Vec<usize>,
    }
    fn partial_ok(c: &Ctx, sel: &[Option<u32>], upto: usize) -> bool {
        if !c.p.root_constraints.iter().all(|k| cons_ok(sel, k)) {
            return false;
        }
        if !c.p.root_reqs.iter().all(|r| req_ok(sel, r, upto)) {
            return false;
        }
        for n in 0..upto {
            if let Some(v) = sel[n] {
                let pk = c.idx[&(n, v)];
                if !pk.constrains.iter().all(|k| cons_ok(sel, k)) {
                    return false;
                }
                if !pk.deps.iter().all(|r| req_ok(sel, r, upto)) {
                    return false;
                }
            }
        }
        true
    }
    fn rec(c: &Ctx, sel: &mut Vec<Option<u32>>, i: usize) -> bool {
        if !partial_ok(c, sel, i) {
            return false;
        }
        if i == sel.len() {
            return true;
        }
        if !c.forced_names.contains(&i) && rec(c, sel, i + 1) {
            return true;
        }
        for k in 0..c.options[i].len() {
            sel[i] = Some(c.options[i][k]);
            if rec(c, sel, i + 1) {
                return true;
            }
        }
        sel[i] = None;
        false
    }
    let mut forced_names = vec![];
    for (n, v) in forced {
        if !options[*n].contains(v) {
            return None;
        }
        options[*n] = vec![*v];
        forced_names.push(*n);
    }
    let ctx = Ctx { p, options, idx, forced_names };
    let mut sel = vec![None; u.n_names];
    if rec(&ctx, &mut sel, 0) {
        let w: Vec<(usize, u32)> = sel
            .iter()
            .enumerate()
            .filter_map(|(n, v)| v.map(|v| (n, v)))
            .collect();
        let hard = Prob { soft: vec![], ..p.clone() };
        let bad = validate(u, &hard, &w);
        assert!(bad.is_empty(), "reference implementations disagree: {bad:?}");
        Some(w)
    } else {
        None
    }
}

fn bf_size(u: &Universe) -> u64 {
    let mut n = 1u64;
    for name in 0..u.n_names {
        n = n.saturating_mul(1 + u.pkgs.iter().filter(|p| p.name == name).count() as u64);
    }
    n
}

// ---------------------------------------------------------------------------
// The oracles
// ---------------------------------------------------------------------------

fn matches_spec(s: &Spec, n: usize, v: u32) -> bool {
    s.name == n && s.lo <= v && v < s.hi
}
fn matches_req(r: &[Spec], n: usize, v: u32) -> bool {
    r.iter().any(|s| matches_spec(s, n, v))
}
fn pkg<'a>(u: &'a Universe, n: usize, v: u32) -> Option<&'a Pkg> {
    u.pkgs.iter().find(|p| p.name == n && p.version == v)
}
fn fmt_sol(sol: &[(usize, u32)]) -> String {
    let mut s: Vec<_> = sol.to_vec();
    s.sort();
    s.iter().map(|(n, v)| format!("{}={v}", nm(*n))).collect::<Vec<_>>().join(" ")
}

/// C05: the selected solvables that are NOT reachable from the root requirements / the selected
/// soft requirements through requirement edges, looking at the selected set only.  (Generous:
/// every selected solvable that matches a requirement of a reached solvable is reached.)
pub fn c05_unreachable(u: &Universe, p: &Prob, sol: &[(usize, u32)]) -> Vec<(usize, u32)> {
    let mut reached: BTreeSet<(usize, u32)> = BTreeSet::new();
    let mut todo: Vec<(usize, u32)> = vec![];
    for &(n, v) in sol {
        if p.root_reqs.iter().any(|r| matches_req(r, n, v)) || p.soft.contains(&(n, v)) {
            if reached.insert((n, v)) {
                todo.push((n, v));
            }
        }
    }
    while let Some((n, v)) = todo.pop() {
        let Some(pk) = pkg(u, n, v) else { continue };
        if pk.unknown {
            continue;
        }
        for r in &pk.deps {
            for &(m, w) in sol {
                if matches_req(r, m, w) && reached.insert((m, w)) {
                    todo.push((m, w));
                }
            }
        }
    }
    sol.iter().copied().filter(|s| !reached.contains(s)).collect()
}

/// C07: the closure of first-ranked candidates, if the problem is conflict-free in the sense of
/// the record: the closure is a valid selection and every requirement (of the root and of the
/// selected solvables) is met, within the closure, only by its own first choice.
/// Err(reason) when the problem is not conflict-free.
pub fn c07_preferred_closure(
    u: &Universe,
    p: &Prob,
    own_order: bool,
) -> Result<Vec<(usize, u32)>, String> {
    let mut g: Vec<(usize, u32)> = vec![];
    let mut todo: Vec<Vec<Spec>> = p.root_reqs.clone();
    while let Some(r) = todo.pop() {
        let Some(c) = first_choice(u, own_order, &r) else {
            return Err(format!("requirement \"{}\" has no candidates", union_str(&r)));
        };
        if g.contains(&c) {
            continue;
        }
        g.push(c);
        let pk = pkg(u, c.0, c.1).expect("candidates exist");
        if pk.unknown {
            return Err(format!("{}={} has unknown dependencies", nm(c.0), c.1));
        }
        todo.extend(pk.deps.iter().cloned());
    }
    let hard = Prob { soft: vec![], ..p.clone() };
    let bad = validate(u, &hard, &g);
    if !bad.is_empty() {
        return Err(format!("closure {} invalid: {}", fmt_sol(&g), bad[0]));
    }
    // every requirement is met only by its own first choice
    let mut reqs: Vec<&Vec<Spec>> = p.root_reqs.iter().collect();
    for (n, v) in &g {
        reqs.extend(pkg(u, *n, *v).unwrap().deps.iter());
    }
    for r in reqs {
        let fc = first_choice(u, own_order, r).unwrap();
        for &(n, v) in &g {
            if matches_req(r, n, v) && (n, v) != fc {
                return Err(format!(
                    "requirement \"{}\" is also met by {}={v}, not only by its first choice",
                    union_str(r),
                    nm(n)
                ));
            }
        }
    }
    Ok(g)
}

/// names mentioned by requirements and constrains
fn mentioned(reqs: &[Vec<Spec>], cons: &[Spec]) -> BTreeSet<usize> {
    reqs.iter().flatten().chain(cons.iter()).map(|s| s.name).collect()
}

/// C09 (a): replay of the provider call log.  Every get_dependencies(s) must be for a solvable
/// that matches a requirement obtained before (the root's of the current or an earlier problem,
/// or of a solvable whose dependencies were RETURNED before) or for a soft requirement of the
/// current / an earlier problem; every get_candidates(n) for a name mentioned (requirements or
/// constrains) by dependencies obtained before; each at most once.
pub fn c09_causal(u: &Universe, log: &[Ev]) -> Option<String> {
    let mut reqs: Vec<Vec<Spec>> = vec![];
    let mut names: BTreeSet<usize> = BTreeSet::new();
    let mut soft: Vec<(usize, u32)> = vec![];
    let mut seen_c: BTreeSet<usize> = BTreeSet::new();
    let mut seen_d: BTreeSet<(usize, u32)> = BTreeSet::new();
    for (i, ev) in log.iter().enumerate() {
        match ev {
            Ev::Solve(pi) => {
                let p = &u.probs[*pi];
                reqs.extend(p.root_reqs.iter().cloned());
                names.extend(mentioned(&p.root_reqs, &p.root_constraints));
                soft.extend(p.soft.iter().copied());
            }
            Ev::CandEnter(n) => {
                if !seen_c.insert(*n) {
                    return Some(format!("C09-DUP-CANDIDATES: get_candidates({}) twice (event {i})", nm(*n)));
                }
                if !names.contains(n) {
                    return Some(format!(
                        "C09-ACAUSAL-CANDIDATES: get_candidates({}) (event {i}) but no dependencies obtained before mention it",
                        nm(*n)
                    ));
                }
            }
            Ev::CandRet(_) => {}
            Ev::DepsEnter(n, v) => {
                if !seen_d.insert((*n, *v)) {
                    return Some(format!("C09-DUP-DEPENDENCIES: get_dependencies({}={v}) twice (event {i})", nm(*n)));
                }
                // (a candidate is a solvable the provider lists for the package)
                let is_candidate = pkg(u, *n, *v).is_some();
                let by_req = is_candidate && reqs.iter().any(|r| matches_req(r, *n, *v));
                if !by_req && !soft.contains(&(*n, *v)) {
                    return Some(format!(
                        "C09-ACAUSAL-DEPENDENCIES: get_dependencies({}={v}) (event {i}) is neither a matching candidate of a requirement obtained before nor a soft requirement",
                        nm(*n)
                    ));
                }
            }
            Ev::DepsRet(n, v) => {
                if let Some(pk) = pkg(u, *n, *v) {
                    if !pk.unknown {
                        reqs.extend(pk.deps.iter().cloned());
                        names.extend(mentioned(&pk.deps, &pk.constrains));
                    }
                }
            }
        }
    }
    None
}

/// C09 (b): on a conflict-free problem (first solve of a fresh solver, no hints) dependencies are
/// requested for exactly the solvables of the solution and candidates for exactly the names their
/// dependencies and the root mention.
pub fn c09_exact(u: &Universe, p: &Prob, g: &[(usize, u32)], log: &[Ev]) -> Option<String> {
    let deps_called: BTreeSet<(usize, u32)> = log
        .iter()
        .filter_map(|e| if let Ev::DepsEnter(n, v) = e { Some((*n, *v)) } else { None })
        .collect();
    let cands_called: BTreeSet<usize> = log
        .iter()
        .filter_map(|e| if let Ev::CandEnter(n) = e { Some(*n) } else { None })
        .collect();
    let deps_expected: BTreeSet<(usize, u32)> = g.iter().copied().collect();
    let mut cands_expected = mentioned(&p.root_reqs, &p.root_constraints);
    for (n, v) in g {
        let pk = pkg(u, *n, *v).unwrap();
        cands_expected.extend(mentioned(&pk.deps, &pk.constrains));
    }
    if let Some((n, v)) = deps_called.difference(&deps_expected).next() {
        return Some(format!(
            "C09B-EXTRA-DEPENDENCIES: conflict-free, solution {} but get_dependencies({}={v})",
            fmt_sol(g),
            nm(*n)
        ));
    }
    if let Some((n, v)) = deps_expected.difference(&deps_called).next() {
        return Some(format!(
            "C09B-MISSING-DEPENDENCIES: conflict-free, solution {} but no get_dependencies({}={v})",
            fmt_sol(g),
            nm(*n)
        ));
    }
    if let Some(n) = cands_called.difference(&cands_expected).next() {
        return Some(format!(
            "C09B-EXTRA-CANDIDATES: conflict-free, solution {} but get_candidates({})",
            fmt_sol(g),
            nm(*n)
        ));
    }
    if let Some(n) = cands_expected.difference(&cands_called).next() {
        return Some(format!(
            "C09B-MISSING-CANDIDATES: conflict-free, solution {} but no get_candidates({})",
            fmt_sol(g),
            nm(*n)
        ));
    }
    None
}

/// how often the antecedent of each property held (= the property was really put to the test)
#[derive(Default, Debug, Clone)]
pub struct Counts {
    pub solves: u64,
    pub ok: u64,
    pub unsat: u64,
    pub c05: u64,
    pub c05_with_soft: u64,
    pub c07: u64,
    pub c07_multi: u64,
    pub c08: u64,
    pub c08_nontrivial: u64,
    /// ... of which some root requirement is a union over one package
    pub c08_samepkg_union: u64,
    pub c08x: u64,
    /// mixed root requirements (unions present): downgrades seen, only reported with HUNT_C08X
    pub c08x_downgraded: u64,
    pub c09a: u64,
    pub c09a_calls: u64,
    pub c09b: u64,
}
thread_local! {
    pub static COUNTS: RefCell<Counts> = RefCell::new(Counts::default());
}
fn count(f: impl FnOnce(&mut Counts)) {
    COUNTS.with(|c| f(&mut c.borrow_mut()));
}

fn only(prop: &str) -> bool {
    match std::env::var("HUNT_ONLY") {
        Ok(s) => s.split(',').any(|x| x == prop),
        Err(_) => true,
    }
}

/// Cached (per problem and presentation order) reference results
#[derive(Default)]
struct RefCache {
    closure: HashMap<(usize, bool), Result<Vec<(usize, u32)>, String>>,
    /// Some(witness) if a valid selection contains the first choices of all single root reqs
    best_roots: HashMap<(usize, bool), Option<(Vec<(usize, u32)>, Option<Vec<(usize, u32)>>)>>,
}

fn bf_limit() -> u64 {
    env_u64("HUNT_BF_LIMIT", 300_000)
}

/// All checks of one solve outcome
fn check_outcome(
    u: &Universe,
    pi: usize,
    variant: Variant,
    o: &Outcome,
    rc: &mut RefCache,
) -> Option<String> {
    let p = &u.probs[pi];
    let label = variant.label;
    count(|c| c.solves += 1);
    let sol = match o {
        Outcome::Ok(sol) => sol,
        Outcome::Unsolvable(_) => {
            count(|c| c.unsat += 1);
            // (sanity, conflict-free problems are solvable)
            if p.soft.is_empty() && only("C07") {
                let g = rc
                    .closure
                    .entry((pi, variant.own_order))
                    .or_insert_with(|| c07_preferred_closure(u, p, variant.own_order));
                if let Ok(g) = g {
                    return Some(format!(
                        "C07-UNSAT: [{label} problem#{pi}] conflict-free (closure {}) but Unsolvable",
                        fmt_sol(g)
                    ));
                }
            }
            return None;
        }
        Outcome::Cancelled => return Some(format!("CANCELLED: [{label} problem#{pi}]")),
        Outcome::Panic(m) => return Some(format!("PANIC: {m} [{label} problem#{pi}]")),
    };
    count(|c| c.ok += 1);
    let bad = validate(u, p, sol);
    if !bad.is_empty() {
        return Some(format!("INVALID: [{label} problem#{pi}] {bad:?} sol={}", fmt_sol(sol)));
    }

    // ---- C05
    if only("C05") {
        count(|c| {
            c.c05 += 1;
            if !p.soft.is_empty() {
                c.c05_with_soft += 1
            }
        });
        let extra = c05_unreachable(u, p, sol);
        if !extra.is_empty() {
            return Some(format!(
                "C05-EXTRANEOUS: [{label} problem#{pi}] {} not reachable within solution {}",
                fmt_sol(&extra),
                fmt_sol(sol)
            ));
        }
    }

    // ---- C07 (problems without soft requirements)
    if p.soft.is_empty() && only("C07") {
        let g = rc
            .closure
            .entry((pi, variant.own_order))
            .or_insert_with(|| c07_preferred_closure(u, p, variant.own_order));
        if let Ok(g) = g {
            count(|c| {
                c.c07 += 1;
                // several versions to choose from somewhere
                if g.iter().any(|(n, _)| u.pkgs.iter().filter(|q| q.name == *n).count() > 1) {
                    c.c07_multi += 1
                }
            });
            let a: BTreeSet<_> = g.iter().copied().collect();
            let b: BTreeSet<_> = sol.iter().copied().collect();
            if a != b {
                return Some(format!(
                    "C07-NOT-PREFERRED: [{label} problem#{pi}] conflict-free, preferred closure {} but solution {}",
                    fmt_sol(g),
                    fmt_sol(sol)
                ));
            }
        }
    }

    // ---- C08
    if only("C08") && !p.root_reqs.is_empty() && bf_size(u) <= bf_limit() {
        // "single-package" root requirement: a single version set, or (HUNT_SAMEPKG, default on)
        // a union whose members all refer to the same package
        let samepkg = std::env::var("HUNT_SAMEPKG").as_deref() != Ok("0");
        let is_single = |r: &Vec<Spec>| r.len() == 1 || (samepkg && r.iter().all(|s| s.name == r[0].name));
        let all_single = p.root_reqs.iter().all(is_single);
        let has_samepkg_union = p.root_reqs.iter().any(|r| r.len() > 1 && is_single(r));
        let conflict_free = rc
            .closure
            .entry((pi, variant.own_order))
            .or_insert_with(|| c07_preferred_closure(u, p, variant.own_order))
            .is_ok();
        let e = rc.best_roots.entry((pi, variant.own_order)).or_insert_with(|| {
            let mut firsts: Vec<(usize, u32)> = vec![];
            for r in p.root_reqs.iter().filter(|r| is_single(r)) {
                match first_choice(u, variant.own_order, r) {
                    Some(c) => {
                        if !firsts.contains(&c) {
                            firsts.push(c)
                        }
                    }
                    None => return None,
                }
            }
            if firsts.is_empty() {
                return None;
            }
            // two different versions of one package can never be selected together
            for (i, a) in firsts.iter().enumerate() {
                if firsts[..i].iter().any(|b| b.0 == a.0) {
                    return Some((firsts, None));
                }
            }
            let w = brute_force_forced(u, p, &firsts);
            Some((firsts, w))
        });
        if let Some((firsts, Some(w))) = e {
            count(|c| {
                if all_single {
                    c.c08 += 1;
                    if has_samepkg_union {
                        c.c08_samepkg_union += 1;
                    }
                    // the closure of first choices is not simply valid: something has to give
                    if !conflict_free {
                        c.c08_nontrivial += 1;
                    }
                } else {
                    c.c08x += 1
                }
            });
            if let Some(miss) = firsts.iter().find(|f| !sol.contains(f)) {
                let kind = if all_single { "C08-ROOT-DOWNGRADED" } else { "C08X-ROOT-DOWNGRADED-MIXED" };
                if !all_single && std::env::var("HUNT_C08X").is_err() {
                    count(|c| c.c08x_downgraded += 1);
                    return None;
                }
                return Some(format!(
                    "{kind}: [{label} problem#{pi}] solution {} lacks first-ranked {}={} although {} is valid",
                    fmt_sol(sol),
                    nm(miss.0),
                    miss.1,
                    fmt_sol(w)
                ));
            }
        }
    }
    None
}

/// All variants; every problem of the universe on one solver per variant
pub fn check(u: &Universe, _mode: u8, tag: &str) -> Option<String> {
    let mut rc = RefCache::default();
    let vmask = env_u64("HUNT_VARIANTS", u64::MAX);
    let mut skip_rest = false;
    for (vi, &variant) in VARIANTS.iter().enumerate() {
        if vmask & (1 << vi) == 0 {
            continue;
        }
        let r = run(u, variant, tag);
        for (pi, o) in r.outs.iter().enumerate() {
            if let Some(f) = check_outcome(u, pi, variant, o, &mut rc) {
                return Some(f);
            }
        }
        // The properties speak about solutions.  When nothing is solvable, the other
        // presentations are only run for one universe in four (C09 (a) also covers failing solves).
        if vi == 0
            && std::env::var("HUNT_KEEP_UNSAT").is_err()
            && r.outs.iter().all(|o| matches!(o, Outcome::Unsolvable(_)))
            && (u.id_seed >> 3) % 4 != 0
        {
            skip_rest = true;
        }
        if variant.lazy_observable() && only("C09") {
            count(|c| {
                c.c09a += 1;
                c.c09a_calls += r.log.iter().filter(|e| matches!(e, Ev::CandEnter(_) | Ev::DepsEnter(..))).count() as u64;
            });
            if let Some(f) = c09_causal(u, &r.log) {
                return Some(format!("{f} [{}]", variant.label));
            }
            // exactness on conflict-free problems: first problem only (fresh solver)
            let p = &u.probs[0];
            if p.soft.is_empty() && matches!(r.outs[0], Outcome::Ok(_)) {
                let g = rc
                    .closure
                    .entry((0, variant.own_order))
                    .or_insert_with(|| c07_preferred_closure(u, p, variant.own_order));
                if let Ok(g) = g {
                    let end = r.log.iter().position(|e| *e == Ev::Solve(1)).unwrap_or(r.log.len());
                    count(|c| c.c09b += 1);
                    if let Some(f) = c09_exact(u, p, g, &r.log[..end]) {
                        return Some(format!("{f} [{}]", variant.label));
                    }
                }
            }
        } else if !variant.callbacks {
            // the provider's own duplicate detection (any hint pattern)
            if let Some(c) = r.complaints.first() {
                return Some(format!("DUP-REQUEST: [{}] {c}", variant.label));
            }
        }
        if skip_rest {
            break;
        }
    }
    None
}

/// the failure class used for counting and shrinking
fn class_of(f: &str) -> String {
    let kind = f.split(':').next().unwrap_or("");
    if kind == "PANIC" {
        f.split(" [").next().unwrap_or(f).to_string()
    } else {
        kind.to_string()
    }
}

// ---------------------------------------------------------------------------
// Generator
// ---------------------------------------------------------------------------

#[derive(Clone, Copy, Debug)]
pub struct Profile {
    pub names: (u64, u64),
    pub versions: (u64, u64),
    pub deps: (u64, u64),
    pub max_constrains: u64,
    pub root_reqs: (u64, u64),
    pub union_pct: u64,
    pub root_constraint_pct: u64,
    pub extras_pct: u64,
    pub full_range_pct: u64,
    pub unknown_pct: u64,
    pub nocand_pct: u64,
    /// chance of a favored candidate per package (at least extras_pct)
    pub favored_pct: u64,
    /// chance that a root requirement / a constrains entry refers to one of the packages p0..p2
    /// (conflicts below the direct requirements that push against their first choice)
    pub rooty_pct: u64,
}

pub const PROFILES: &[Profile] = &[
    Profile {
        names: (3, 5),
        versions: (1, 3),
        deps: (0, 2),
        max_constrains: 1,
        root_reqs: (1, 3),
        union_pct: 12,
        root_constraint_pct: 15,
        extras_pct: 8,
        full_range_pct: 50,
        unknown_pct: 4,
        nocand_pct: 4,
        favored_pct: 0,
        rooty_pct: 0,
    },
    Profile {
        names: (4, 7),
        versions: (1, 4),
        deps: (0, 3),
        max_constrains: 2,
        root_reqs: (1, 3),
        union_pct: 10,
        root_constraint_pct: 25,
        extras_pct: 10,
        full_range_pct: 45,
        unknown_pct: 3,
        nocand_pct: 4,
        favored_pct: 0,
        rooty_pct: 0,
    },
    Profile {
        names: (3, 6),
        versions: (2, 4),
        deps: (1, 3),
        max_constrains: 2,
        root_reqs: (2, 3),
        union_pct: 8,
        root_constraint_pct: 10,
        extras_pct: 4,
        full_range_pct: 30,
        unknown_pct: 2,
        nocand_pct: 2,
        favored_pct: 0,
        rooty_pct: 0,
    },
    Profile {
        names: (5, 7),
        versions: (1, 2),
        deps: (0, 3),
        max_constrains: 1,
        root_reqs: (1, 4),
        union_pct: 30,
        root_constraint_pct: 20,
        extras_pct: 15,
        full_range_pct: 60,
        unknown_pct: 8,
        nocand_pct: 5,
        favored_pct: 0,
        rooty_pct: 0,
    },
    // search heavy: many versions, narrow ranges, few trivial reasons for unsolvability
    Profile {
        names: (5, 8),
        versions: (2, 5),
        deps: (1, 2),
        max_constrains: 2,
        root_reqs: (2, 3),
        union_pct: 10,
        root_constraint_pct: 8,
        extras_pct: 2,
        full_range_pct: 25,
        unknown_pct: 1,
        nocand_pct: 1,
        favored_pct: 0,
        rooty_pct: 0,
    },
    Profile {
        names: (6, 10),
        versions: (3, 4),
        deps: (1, 3),
        max_constrains: 1,
        root_reqs: (1, 2),
        union_pct: 5,
        root_constraint_pct: 5,
        extras_pct: 2,
        full_range_pct: 20,
        unknown_pct: 1,
        nocand_pct: 0,
        favored_pct: 0,
        rooty_pct: 0,
    },
    Profile {
        names: (6, 9),
        versions: (3, 5),
        deps: (1, 2),
        max_constrains: 1,
        root_reqs: (2, 3),
        union_pct: 10,
        root_constraint_pct: 5,
        extras_pct: 2,
        full_range_pct: 50,
        unknown_pct: 1,
        nocand_pct: 0,
        favored_pct: 0,
        rooty_pct: 0,
    },
    // many versions per package (at-most-one encoding with several helper variables)
    Profile {
        names: (3, 4),
        versions: (6, 10),
        deps: (1, 2),
        max_constrains: 3,
        root_reqs: (1, 3),
        union_pct: 15,
        root_constraint_pct: 15,
        extras_pct: 4,
        full_range_pct: 35,
        unknown_pct: 2,
        nocand_pct: 0,
        favored_pct: 0,
        rooty_pct: 0,
    },
    // big (the brute force reference is mostly skipped)
    Profile {
        names: (10, 14),
        versions: (2, 5),
        deps: (1, 3),
        max_constrains: 2,
        root_reqs: (2, 4),
        union_pct: 10,
        root_constraint_pct: 5,
        extras_pct: 2,
        full_range_pct: 35,
        unknown_pct: 1,
        nocand_pct: 0,
        favored_pct: 0,
        rooty_pct: 0,
    },
    Profile {
        names: (4, 6),
        versions: (3, 6),
        deps: (1, 2),
        max_constrains: 3,
        root_reqs: (2, 4),
        union_pct: 15,
        root_constraint_pct: 10,
        extras_pct: 3,
        full_range_pct: 35,
        unknown_pct: 1,
        nocand_pct: 1,
        favored_pct: 0,
        rooty_pct: 0,
    },
    // mostly conflict-free: wide ranges, hardly any constrains / locks / exclusions, many favored
    Profile {
        names: (3, 7),
        versions: (1, 4),
        deps: (0, 3),
        max_constrains: 0,
        root_reqs: (1, 3),
        union_pct: 20,
        root_constraint_pct: 3,
        extras_pct: 1,
        full_range_pct: 70,
        unknown_pct: 0,
        nocand_pct: 0,
        favored_pct: 35,
        rooty_pct: 0,
    },
    Profile {
        names: (4, 9),
        versions: (2, 4),
        deps: (0, 2),
        max_constrains: 1,
        root_reqs: (1, 4),
        union_pct: 25,
        root_constraint_pct: 5,
        extras_pct: 2,
        full_range_pct: 55,
        unknown_pct: 1,
        nocand_pct: 1,
        favored_pct: 30,
        rooty_pct: 0,
    },
    // conflicts below the direct requirements: single version set root requirements with wide
    // ranges, narrow transitive ranges and constrains
    Profile {
        names: (4, 8),
        versions: (2, 4),
        deps: (1, 3),
        max_constrains: 2,
        root_reqs: (2, 4),
        union_pct: 0,
        root_constraint_pct: 5,
        extras_pct: 3,
        full_range_pct: 15,
        unknown_pct: 2,
        nocand_pct: 0,
        favored_pct: 15,
        rooty_pct: 0,
    },
    Profile {
        names: (5, 10),
        versions: (2, 3),
        deps: (1, 2),
        max_constrains: 2,
        root_reqs: (1, 3),
        union_pct: 15,
        root_constraint_pct: 10,
        extras_pct: 5,
        full_range_pct: 30,
        unknown_pct: 3,
        nocand_pct: 1,
        favored_pct: 20,
        rooty_pct: 0,
    },
    // "rooty": direct requirements on p0..p2 with wide ranges, the constrains of the other
    // packages push against them
    Profile {
        names: (4, 7),
        versions: (2, 4),
        deps: (1, 2),
        max_constrains: 2,
        root_reqs: (2, 3),
        union_pct: 0,
        root_constraint_pct: 3,
        extras_pct: 2,
        full_range_pct: 40,
        unknown_pct: 1,
        nocand_pct: 0,
        favored_pct: 15,
        rooty_pct: 70,
    },
    Profile {
        names: (5, 9),
        versions: (2, 3),
        deps: (1, 3),
        max_constrains: 1,
        root_reqs: (2, 4),
        union_pct: 6,
        root_constraint_pct: 3,
        extras_pct: 2,
        full_range_pct: 50,
        unknown_pct: 1,
        nocand_pct: 0,
        favored_pct: 10,
        rooty_pct: 60,
    },
];

fn gen_spec(r: &mut Rng, nvs: &[u32], full_pct: u64, own: Option<usize>) -> Spec {
    gen_spec_biased(r, nvs, full_pct, own, 0)
}

fn gen_spec_biased(r: &mut Rng, nvs: &[u32], full_pct: u64, own: Option<usize>, rooty_pct: u64) -> Spec {
    let n_names = nvs.len();
    let mut name = r.below(n_names as u64) as usize;
    if rooty_pct > 0 && r.chance(rooty_pct) {
        name = r.below(3.min(n_names as u64)) as usize;
    }
    // self references only occasionally
    if Some(name) == own && !r.chance(10) {
        name = (name + 1) % n_names;
    }
    // mostly ranges within the existing versions of the package
    let maxv = if r.chance(90) { nvs[name].max(1) } else { nvs[name] + 1 };
    if r.chance(full_pct) {
        Spec { name, lo: 0, hi: 100 }
    } else if r.chance(2) {
        let lo = r.range(1, maxv as u64) as u32;
        Spec { name, lo, hi: lo } // empty range
    } else {
        let lo = r.range(1, maxv as u64) as u32;
        let hi = r.range(lo as u64 + 1, maxv as u64 + 1) as u32;
        Spec { name, lo, hi }
    }
}

fn gen_prob(r: &mut Rng, u: &Universe, p: &Profile, nvs: &[u32], with_soft: bool) -> Prob {
    let mut pr = Prob::default();
    let n_reqs = if r.chance(3) { 0 } else { r.range(p.root_reqs.0, p.root_reqs.1) };
    for _ in 0..n_reqs {
        let mut un = vec![if p.rooty_pct > 0 {
            gen_spec_biased(r, nvs, 85, None, p.rooty_pct)
        } else {
            gen_spec(r, nvs, p.full_range_pct, None)
        }];
        if r.chance(p.union_pct) {
            un.push(gen_spec(r, nvs, p.full_range_pct, None));
            if r.chance(25) {
                un.push(gen_spec(r, nvs, p.full_range_pct, None));
            }
            // a union over a single package
            if r.chance(30) {
                let name = un[0].name;
                for s in un.iter_mut() {
                    if s.name != name {
                        let maxv = nvs[name].max(1) as u64;
                        let lo = r.range(1, maxv) as u32;
                        *s = Spec { name, lo, hi: r.range(lo as u64 + 1, maxv + 1) as u32 };
                    }
                }
            }
        }
        pr.root_reqs.push(un);
    }
    if !pr.root_reqs.is_empty() && r.chance(3) {
        pr.root_reqs.push(pr.root_reqs[0].clone());
    }
    if r.chance(p.root_constraint_pct) {
        for _ in 0..r.range(1, 2) {
            pr.root_constraints
                .push(gen_spec(r, nvs, 0, None));
        }
    }
    if with_soft && !u.pkgs.is_empty() {
        let n_soft = if r.chance(20) { r.range(4, 6) } else { r.range(1, 3) };
        for _ in 0..n_soft {
            let pk = &u.pkgs[r.below(u.pkgs.len() as u64) as usize];
            let s = (pk.name, pk.version);
            if !pr.soft.contains(&s) || r.chance(20) {
                pr.soft.push(s);
            }
        }
    }
    pr
}

pub fn gen_universe(seed: u64, mode: u8) -> Universe {
    let mut r = Rng::new(seed ^ ((mode as u64) << 56));
    let p = match std::env::var("HUNT_PROFILE").ok().and_then(|s| s.parse::<usize>().ok()) {
        Some(i) => PROFILES[i],
        None => PROFILES[(seed % PROFILES.len() as u64) as usize],
    };
    let n_names = r.range(p.names.0, p.names.1) as usize;
    let mut u = Universe {
        n_names,
        ..Default::default()
    };
    // number of versions per name; occasionally a name without any candidates
    let nvs: Vec<u32> = (0..n_names)
        .map(|_| if r.chance(p.nocand_pct) { 0 } else { r.range(p.versions.0, p.versions.1) as u32 })
        .collect();
    for n in 0..n_names {
        let nv = nvs[n];
        if nv == 0 {
            continue;
        }
        for v in 1..=nv {
            let mut pk = Pkg {
                name: n,
                version: v,
                ..Default::default()
            };
            for _ in 0..r.range(p.deps.0, p.deps.1) {
                let mut un = vec![gen_spec(&mut r, &nvs, p.full_range_pct, Some(n))];
                if r.chance(p.union_pct) {
                    if r.chance(10) {
                        un.push(un[0].clone());
                    } else {
                        un.push(gen_spec(&mut r, &nvs, p.full_range_pct, Some(n)));
                        if r.chance(25) {
                            un.push(gen_spec(&mut r, &nvs, p.full_range_pct, Some(n)));
                        }
                    }
                }
                pk.deps.push(un);
            }
            if !pk.deps.is_empty() && r.chance(3) {
                pk.deps.push(pk.deps[0].clone());
            }
            for _ in 0..r.range(0, p.max_constrains) {
                pk.constrains
                    .push(gen_spec_biased(&mut r, &nvs, 0, Some(n), p.rooty_pct));
            }
            pk.unknown = r.chance(p.unknown_pct);
            u.pkgs.push(pk);
        }
        let versions: Vec<u32> = (1..=nv).collect();
        let pick = |r: &mut Rng| versions[r.below(versions.len() as u64) as usize];
        if r.chance(p.extras_pct.max(p.favored_pct)) {
            u.favored.insert(n, pick(&mut r));
        }
        if r.chance(p.extras_pct) {
            // occasionally locked to a version that is not among the candidates
            let v = if r.chance(10) { 99 } else { pick(&mut r) };
            u.locked.insert(n, v);
        }
        for &v in &versions {
            if r.chance(p.extras_pct / 2) {
                u.excluded.insert((n, v));
            }
        }
        if r.chance(1) {
            u.excluded.insert((n, 98));
        }
        let h = match r.below(10) {
            0..=3 => Hint::None,
            4..=6 => Hint::All,
            _ => {
                let mut vs: Vec<u32> = versions.iter().copied().filter(|_| r.chance(50)).collect();
                if r.chance(3) {
                    vs.push(97);
                }
                Hint::Some(vs)
            }
        };
        if h != Hint::None {
            u.hints.insert(n, h);
        }
    }
    u.id_seed = r.next() | 1;
    u.cand_seed = r.next() | 1;
    u.sort_mode = r.below(4) as u8;
    let n_probs = if mode == 2 { r.range(2, 3) } else { 1 };
    for _ in 0..n_probs {
        let with_soft = match mode {
            0 => false,
            1 => true,
            _ => r.chance(40),
        };
        let pr = gen_prob(&mut r, &u, &p, &nvs, with_soft);
        u.probs.push(pr);
    }
    // reuse scenario: sometimes repeat the very same problem
    if mode == 2 && r.chance(25) {
        let p0 = u.probs[0].clone();
        u.probs.push(p0);
    }
    u
}

// ---------------------------------------------------------------------------
// Search
// ---------------------------------------------------------------------------

fn env_u64(name: &str, default: u64) -> u64 {
    std::env::var(name)
        .ok()
        .and_then(|s| s.parse().ok())
        .unwrap_or(default)
}

#[test]
fn random_search() {
    let cases = env_u64("HUNT_CASES", 2000);
    let seed0 = env_u64("HUNT_SEED", 1);
    let mode = env_u64("HUNT_MODE", 0) as u8;
    let max_report = env_u64("HUNT_REPORT", 5) as usize;
    start_watchdog();
    println!("debug_assertions = {}", cfg!(debug_assertions));
    let mut kinds: BTreeMap<String, (u64, u64, usize)> = BTreeMap::new();
    let mut reported: BTreeMap<String, usize> = BTreeMap::new();
    let t0 = Instant::now();
    for seed in seed0..seed0 + cases {
        let u = gen_universe(seed, mode);
        if let Some(f) = check(&u, mode, &format!("mode={mode} seed={seed}")) {
            let key = class_of(&f);
            let size = u.pkgs.len();
            let e = kinds.entry(key.clone()).or_insert((0, seed, size));
            e.0 += 1;
            if size < e.2 {
                e.1 = seed;
                e.2 = size;
            }
            let rep = reported.entry(key).or_insert(0);
            if *rep < max_report {
                *rep += 1;
                println!("=== FAILURE mode={mode} seed={seed}: {f}\n{}", u.dump());
            }
        }
        if (seed - seed0 + 1) % 50_000 == 0 {
            println!(
                "... {} cases, {} failure classes, {:.0}s",
                seed - seed0 + 1,
                kinds.len(),
                t0.elapsed().as_secs_f64()
            );
        }
    }
    println!(
        "mode={mode} seeds {seed0}..{} done in {:.0}s",
        seed0 + cases,
        t0.elapsed().as_secs_f64()
    );
    println!("COUNTS mode={mode} universes={cases} {:?}", COUNTS.with(|c| c.borrow().clone()));
    for (k, (n, seed, size)) in &kinds {
        println!("{n:6} x {k}   (smallest: seed {seed}, {size} solvables)");
    }
    if std::env::var("HUNT_ASSERT").is_ok() {
        assert!(kinds.is_empty());
    }
}

// ---------------------------------------------------------------------------
// Shrinker (greedy delta debugging on the universe description)
// ---------------------------------------------------------------------------

fn classify(u: &Universe, mode: u8) -> Option<String> {
    check(u, mode, "shrink").map(|f| class_of(&f))
}

fn shrink_candidates(u: &Universe) -> Vec<Universe> {
    let mut out = vec![];
    if u.probs.len() > 1 {
        for i in 0..u.probs.len() {
            let mut c = u.clone();
            c.probs.remove(i);
            out.push(c);
        }
    }
    for i in 0..u.pkgs.len() {
        let mut c = u.clone();
        let p = c.pkgs.remove(i);
        for pr in &mut c.probs {
            pr.soft.retain(|s| *s != (p.name, p.version));
        }
        out.push(c);
    }
    for pi in 0..u.probs.len() {
        let p = &u.probs[pi];
        for i in 0..p.soft.len() {
            let mut c = u.clone();
            c.probs[pi].soft.remove(i);
            out.push(c);
        }
        for i in 0..p.root_reqs.len() {
            let mut c = u.clone();
            c.probs[pi].root_reqs.remove(i);
            out.push(c);
            if p.root_reqs[i].len() > 1 {
                for j in 0..p.root_reqs[i].len() {
                    let mut c = u.clone();
                    c.probs[pi].root_reqs[i].remove(j);
                    out.push(c);
                }
            }
        }
        for i in 0..p.root_constraints.len() {
            let mut c = u.clone();
            c.probs[pi].root_constraints.remove(i);
            out.push(c);
        }
    }
    for i in 0..u.pkgs.len() {
        for j in 0..u.pkgs[i].deps.len() {
            let mut c = u.clone();
            c.pkgs[i].deps.remove(j);
            out.push(c);
            if u.pkgs[i].deps[j].len() > 1 {
                for k in 0..u.pkgs[i].deps[j].len() {
                    let mut c = u.clone();
                    c.pkgs[i].deps[j].remove(k);
                    out.push(c);
                }
            }
        }
        for j in 0..u.pkgs[i].constrains.len() {
            let mut c = u.clone();
            c.pkgs[i].constrains.remove(j);
            out.push(c);
        }
        if u.pkgs[i].unknown {
            let mut c = u.clone();
            c.pkgs[i].unknown = false;
            out.push(c);
        }
    }
    for k in u.favored.keys() {
        let mut c = u.clone();
        c.favored.remove(k);
        out.push(c);
    }
    for k in u.locked.keys() {
        let mut c = u.clone();
        c.locked.remove(k);
        out.push(c);
    }
    for k in &u.excluded {
        let mut c = u.clone();
        c.excluded.remove(k);
        out.push(c);
    }
    for (k, h) in &u.hints {
        let mut c = u.clone();
        c.hints.remove(k);
        out.push(c);
        if let Hint::Some(vs) = h {
            for i in 0..vs.len() {
                let mut c = u.clone();
                let mut vs = vs.clone();
                vs.remove(i);
                c.hints.insert(*k, Hint::Some(vs));
                out.push(c);
            }
        }
    }
    if u.id_seed != 0 {
        let mut c = u.clone();
        c.id_seed = 0;
        out.push(c);
    }
    if u.cand_seed != 0 {
        let mut c = u.clone();
        c.cand_seed = 0;
        out.push(c);
    }
    if u.sort_mode != 0 {
        let mut c = u.clone();
        c.sort_mode = 0;
        out.push(c);
    }
    // widen ranges to "any"
    for i in 0..u.pkgs.len() {
        for j in 0..u.pkgs[i].deps.len() {
            for k in 0..u.pkgs[i].deps[j].len() {
                let s = &u.pkgs[i].deps[j][k];
                if (s.lo, s.hi) != (0, 100) {
                    let mut c = u.clone();
                    c.pkgs[i].deps[j][k].lo = 0;
                    c.pkgs[i].deps[j][k].hi = 100;
                    out.push(c);
                }
            }
        }
    }
    for pi in 0..u.probs.len() {
        for i in 0..u.probs[pi].root_reqs.len() {
            for k in 0..u.probs[pi].root_reqs[i].len() {
                let s = &u.probs[pi].root_reqs[i][k];
                if (s.lo, s.hi) != (0, 100) {
                    let mut c = u.clone();
                    c.probs[pi].root_reqs[i][k].lo = 0;
                    c.probs[pi].root_reqs[i][k].hi = 100;
                    out.push(c);
                }
            }
        }
    }
    out
}

pub fn shrink(mut u: Universe, mode: u8) -> Universe {
    let class = classify(&u, mode).expect("seed does not fail");
    loop {
        let mut progressed = false;
        for c in shrink_candidates(&u) {
            if classify(&c, mode).as_deref() == Some(class.as_str()) {
                u = c;
                progressed = true;
                break;
            }
        }
        if !progressed {
            return u;
        }
    }
}

#[test]
fn shrink_seed() {
    let Some(seed) = std::env::var("HUNT_SHRINK")
        .ok()
        .and_then(|s| s.parse::<u64>().ok())
    else {
        return;
    };
    let mode = env_u64("HUNT_MODE", 0) as u8;
    start_watchdog();
    let u = gen_universe(seed, mode);
    println!("original ({} solvables): {:?}\n{}", u.pkgs.len(), check(&u, mode, "orig"), u.dump());
    let s = shrink(u, mode);
    println!(
        "shrunk ({} solvables): {:?}\n{}",
        s.pkgs.len(),
        check(&s, mode, "shrunk"),
        s.dump()
    );
}

// ---------------------------------------------------------------------------
// Parsing the dump format back (for hand-built scenarios / minimisation)
// ---------------------------------------------------------------------------

fn parse_name(s: &str) -> usize {
    s.trim().trim_start_matches('p').parse().unwrap()
}
fn parse_spec(s: &str) -> Spec {
    let s = s.trim();
    let mut it = s.split_whitespace();
    let name = parse_name(it.next().unwrap());
    match it.next() {
        None => Spec { name, lo: 0, hi: 100 },
        Some(r) => {
            if let Some((lo, hi)) = r.split_once("..") {
                Spec { name, lo: lo.parse().unwrap(), hi: hi.parse().unwrap() }
            } else {
                let v: u32 = r.parse().unwrap();
                Spec { name, lo: v, hi: v + 1 }
            }
        }
    }
}
fn parse_union(s: &str) -> Vec<Spec> {
    s.split('|').map(parse_spec).collect()
}
/// the quoted strings inside the first [...] following `key`
fn section<'a>(line: &'a str, key: &str) -> Vec<&'a str> {
    let Some(i) = line.find(key) else { return vec![] };
    let rest = &line[i + key.len()..];
    let a = rest.find('[').unwrap();
    let b = rest.find(']').unwrap();
    let inner = &rest[a + 1..b];
    if inner.contains('"') {
        inner.split('"').skip(1).step_by(2).collect()
    } else {
        inner.split(',').map(str::trim).filter(|s| !s.is_empty()).collect()
    }
}
fn parse_nv(s: &str) -> (usize, u32) {
    let (n, v) = s.trim().split_once('=').unwrap();
    (parse_name(n), v.parse().unwrap())
}

pub fn parse_universe(text: &str) -> Universe {
    let mut u = Universe::default();
    let mut max_name = 0;
    for line in text.lines() {
        let line = line.trim();
        if line.is_empty() || line.starts_with('#') {
            continue;
        }
        let words: Vec<&str> = line.split_whitespace().collect();
        if line.starts_with("PROBLEM") {
            u.probs.push(Prob::default());
        } else if line.starts_with("ROOT requires") {
            if u.probs.is_empty() {
                u.probs.push(Prob::default());
            }
            u.probs.last_mut().unwrap().root_reqs =
                section(line, "requires").into_iter().map(parse_union).collect();
        } else if line.starts_with("ROOT constrains") {
            if u.probs.is_empty() {
                u.probs.push(Prob::default());
            }
            u.probs.last_mut().unwrap().root_constraints =
                section(line, "constrains").into_iter().map(parse_spec).collect();
        } else if line.starts_with("SOFT") {
            if u.probs.is_empty() {
                u.probs.push(Prob::default());
            }
            u.probs.last_mut().unwrap().soft =
                section(line, "SOFT").into_iter().map(parse_nv).collect();
        } else if line.starts_with("HINT") {
            let n = parse_name(words[1]);
            max_name = max_name.max(n);
            let h = match words[2] {
                "all" => Hint::All,
                "some" => Hint::Some(
                    words
                        .get(3)
                        .map(|s| s.split(',').filter(|x| !x.is_empty()).map(|x| x.parse().unwrap()).collect())
                        .unwrap_or_default(),
                ),
                _ => Hint::None,
            };
            u.hints.insert(n, h);
        } else if line.starts_with("ORDER") {
            for w in &words[1..] {
                let (k, v) = w.split_once('=').unwrap();
                match k {
                    "id_seed" => u.id_seed = v.parse().unwrap(),
                    "cand_seed" => u.cand_seed = v.parse().unwrap(),
                    "sort" => u.sort_mode = v.parse().unwrap(),
                    _ => panic!("unknown ORDER key {k}"),
                }
            }
        } else if line.starts_with("LOCK") {
            let (n, v) = parse_nv(words[1]);
            u.locked.insert(n, v);
        } else if line.starts_with("FAVOR") {
            let (n, v) = parse_nv(words[1]);
            u.favored.insert(n, v);
        } else if line.starts_with("EXCLUDE") {
            let (n, v) = parse_nv(words[1]);
            u.excluded.insert((n, v));
        } else {
            let (n, v) = parse_nv(words[0]);
            u.pkgs.push(Pkg {
                name: n,
                version: v,
                deps: section(line, "requires").into_iter().map(parse_union).collect(),
                constrains: section(line, "constrains").into_iter().map(parse_spec).collect(),
                unknown: line.ends_with("UNKNOWN"),
            });
        }
    }
    for p in &u.pkgs {
        max_name = max_name.max(p.name);
        for s in p.deps.iter().flatten().chain(p.constrains.iter()) {
            max_name = max_name.max(s.name);
        }
    }
    for pr in &u.probs {
        for s in pr.root_reqs.iter().flatten().chain(pr.root_constraints.iter()) {
            max_name = max_name.max(s.name);
        }
        for (n, _) in &pr.soft {
            max_name = max_name.max(*n);
        }
    }
    u.n_names = max_name + 1;
    u
}

/// HUNT_FILE=<path of a universe in dump format>, HUNT_MODE: run the check, print the outcomes
/// of every variant; HUNT_TRACE=<variant index>: with tracing output for that variant;
/// HUNT_SHRINK_FILE=1: shrink.
#[test]
#[tracing_test::traced_test]
fn run_file() {
    let Ok(path) = std::env::var("HUNT_FILE") else {
        return;
    };
    let mode = env_u64("HUNT_MODE", 0) as u8;
    start_watchdog();
    let u = parse_universe(&std::fs::read_to_string(path).unwrap());
    println!("{}", u.dump());
    if let Ok(v) = std::env::var("HUNT_TRACE") {
        let v: usize = v.parse().unwrap();
        println!("################ TRACE {} ################", VARIANTS[v].label);
        let r = run(&u, VARIANTS[v], "trace");
        println!("{:?}\n{:?}", r.outs, r.log);
        return;
    }
    for &variant in VARIANTS {
        let r = run(&u, variant, "file");
        println!("{} : {:?} {:?}", variant.label, r.outs, r.complaints);
        if std::env::var("HUNT_LOG").is_ok() {
            println!("    log {:?}", r.log);
        }
    }
    for (i, p) in u.probs.iter().enumerate() {
        println!("brute force problem#{i}: {:?}", brute_force(&u, p));
        for own in [false, true] {
            println!("preferred closure problem#{i} own_order={own}: {:?}", c07_preferred_closure(&u, p, own));
        }
    }
    println!("check: {:?}", check(&u, mode, "file"));
    if std::env::var("HUNT_SHRINK_FILE").is_ok() {
        let s = shrink(u, mode);
        println!("shrunk:\n{}", s.dump());
    }
}

/// self test of the checker and the brute force reference
#[test]
fn selftest_reference() {
    let u = parse_universe(
        r#"
        p0=1  requires ["p1 0..100"]  constrains []
        p0=2  requires ["p1 2..3"]  constrains []
        p1=1  requires []  constrains []
        p1=2  requires []  constrains []  UNKNOWN
        LOCK p1=1
        PROBLEM
        ROOT requires ["p0 0..100"]
        ROOT constrains []
        SOFT []
        "#,
    );
    let w = brute_force(&u, &u.probs[0]).unwrap();
    assert_eq!(w, vec![(0, 1), (1, 1)]);
    assert!(validate(&u, &u.probs[0], &[(0, 2), (1, 2)]).len() == 2);
    assert!(validate(&u, &u.probs[0], &[(0, 1)]).len() == 1);
    let mut u2 = u.clone();
    u2.probs[0].root_reqs = vec![vec![Spec { name: 0, lo: 2, hi: 3 }]];
    assert!(brute_force(&u2, &u2.probs[0]).is_none());
    // dump / parse round trip
    let g = gen_universe(77, 2);
    let g2 = parse_universe(&g.dump());
    assert_eq!(g.dump(), g2.dump());
    assert!(check(&u, 0, "selftest").is_none());
    assert!(check(&u2, 0, "selftest").is_none());
    // the two reference implementations agree
    let (mut sat, mut unsat) = (0, 0);
    for seed in 1..4000 {
        let g = gen_universe(seed, 0);
        if bf_size(&g) > 3000 {
            continue;
        }
        let a = brute_force(&g, &g.probs[0]).is_some();
        let b = brute_force_slow(&g, &g.probs[0]).is_some();
        assert_eq!(a, b, "seed {seed}");
        if a { sat += 1 } else { unsat += 1 }
    }
    assert!(sat > 200 && unsat > 200, "{sat} {unsat}");
}

// ---------------------------------------------------------------------------
// Generator statistics: how much of the CDCL machinery do the generated cases exercise?
// (counts the solver's own debug events through a minimal tracing subscriber)
// ---------------------------------------------------------------------------

mod stats {
    use std::sync::atomic::{AtomicU64, Ordering};
    use tracing::{Event, Level, Metadata, Subscriber, field::Field, field::Visit, span};

    pub static LEARNT: AtomicU64 = AtomicU64::new(0);
    pub static RESTART: AtomicU64 = AtomicU64::new(0);
    pub static DECISIONS: AtomicU64 = AtomicU64::new(0);

    pub struct Counter;
    struct V;
    impl Visit for V {
        fn record_debug(&mut self, field: &Field, value: &dyn std::fmt::Debug) {
            if field.name() == "message" {
                let s = format!("{value:?}");
                if s.contains("Learnt disjunction") {
                    LEARNT.fetch_add(1, Ordering::Relaxed);
                } else if s.contains("invalidates the partial solution") {
                    RESTART.fetch_add(1, Ordering::Relaxed);
                } else if s.contains("╒══ Install") {
                    DECISIONS.fetch_add(1, Ordering::Relaxed);
                }
            }
        }
    }
    impl Subscriber for Counter {
        fn enabled(&self, m: &Metadata<'_>) -> bool {
            *m.level() <= Level::DEBUG
        }
        fn new_span(&self, _: &span::Attributes<'_>) -> span::Id {
            span::Id::from_u64(1)
        }
        fn record(&self, _: &span::Id, _: &span::Record<'_>) {}
        fn record_follows_from(&self, _: &span::Id, _: &span::Id) {}
        fn event(&self, e: &Event<'_>) {
            e.record(&mut V);
        }
        fn enter(&self, _: &span::Id) {}
        fn exit(&self, _: &span::Id) {}
    }
}

/// HUNT_GENSTATS=1: histogram of learnt clauses / restarts / decisions per solve (variant V1)
#[test]
fn generator_stats() {
    if std::env::var("HUNT_GENSTATS").is_err() {
        return;
    }
    use std::sync::atomic::Ordering;
    let cases = env_u64("HUNT_CASES", 2000);
    let seed0 = env_u64("HUNT_SEED", 1);
    let mode = env_u64("HUNT_MODE", 0) as u8;
    tracing::subscriber::set_global_default(stats::Counter).unwrap();
    let mut hist_learnt = BTreeMap::<u64, u64>::new();
    let mut hist_restart = BTreeMap::<u64, u64>::new();
    let mut hist_dec = BTreeMap::<u64, u64>::new();
    let (mut ok, mut unsat) = (0, 0);
    let (mut ok_learnt, mut ok_restart) = (0, 0);
    for seed in seed0..seed0 + cases {
        let u = gen_universe(seed, mode);
        stats::LEARNT.store(0, Ordering::Relaxed);
        stats::RESTART.store(0, Ordering::Relaxed);
        stats::DECISIONS.store(0, Ordering::Relaxed);
        let o = run(&u, VARIANTS[1], "stats").outs;
        match o[0] {
            Outcome::Ok(_) => {
                ok += 1;
                if stats::LEARNT.load(Ordering::Relaxed) > 0 {
                    ok_learnt += 1;
                }
                if stats::RESTART.load(Ordering::Relaxed) > 0 {
                    ok_restart += 1;
                }
            }
            Outcome::Unsolvable(_) => unsat += 1,
            _ => {}
        }
        let bucket = |x: u64| match x {
            0..=3 => x,
            4..=7 => 4,
            8..=15 => 8,
            _ => 16,
        };
        *hist_learnt.entry(bucket(stats::LEARNT.load(Ordering::Relaxed))).or_default() += 1;
        *hist_restart.entry(bucket(stats::RESTART.load(Ordering::Relaxed))).or_default() += 1;
        *hist_dec.entry(bucket(stats::DECISIONS.load(Ordering::Relaxed))).or_default() += 1;
    }
    println!("mode={mode} cases={cases} ok={ok} unsat={unsat}; of the ok ones: {ok_learnt} learnt a clause, {ok_restart} restarted after new clauses");
    println!("learnt clauses per case : {hist_learnt:?}");
    println!("restarts per case       : {hist_restart:?}");
    println!("decisions per case      : {hist_dec:?}");
}

