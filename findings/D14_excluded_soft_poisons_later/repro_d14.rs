//! D14 repro (FAILS on the current tree: recorded finding, not repaired). Extracted from hunt2_hints/observation_soft_requirements_dropped.rs
//! OBSERVATIONS OUTSIDE P1-P5 (the returned solutions are valid; no panic, right verdict).
//!
//! Three small universes in which a soft requirement that can be installed on top of the
//! solution of the hard requirements is silently left out.  Each test asserts that the soft
//! requirement is part of the solution and therefore FAILS on the current source.
//!
//!   cargo test --offline --test observation_soft_requirements_dropped
use std::{cell::RefCell, collections::HashMap, fmt::Display};

use resolvo::{
    Candidates, Dependencies, DependencyProvider, HintDependenciesAvailable, Interner,
    KnownDependencies, NameId, Problem, Requirement, SolvableId, Solver, SolverCache, StringId,
    UnsolvableOrCancelled, VersionSetId, VersionSetUnionId,
    utils::{Pool, VersionSet},
};

/// half-open version range
#[derive(Clone, Debug, PartialEq, Eq, Hash)]
struct R(u32, u32);
impl VersionSet for R {
    type V = u32;
}
impl Display for R {
    fn fmt(&self, f: &mut std::fmt::Formatter<'_>) -> std::fmt::Result {
        write!(f, "{}..{}", self.0, self.1)
    }
}

/// (name, version, requirements as (name, lo, hi), constrains as (name, lo, hi))
type Pkg = (&'static str, u32, Vec<(&'static str, u32, u32)>, Vec<(&'static str, u32, u32)>);

struct Prov {
    pool: Pool<R, String>,
    pkgs: Vec<Pkg>,
    excluded: Vec<(&'static str, u32)>,
    /// names whose candidates carry `HintDependenciesAvailable::All`
    hint_all: Vec<&'static str>,
    ids: RefCell<HashMap<(String, u32), SolvableId>>,
}

impl Prov {
    fn new(pkgs: Vec<Pkg>) -> Self {
        Prov {
            pool: Pool::new(),
            pkgs,
            excluded: vec![],
            hint_all: vec![],
            ids: Default::default(),
        }
    }
    fn solvable(&self, n: &str, v: u32) -> SolvableId {
        let name = self.pool.intern_package_name(n.to_string());
        *self
            .ids
            .borrow_mut()
            .entry((n.to_string(), v))
            .or_insert_with(|| self.pool.intern_solvable(name, v))
    }
    fn vs(&self, n: &str, lo: u32, hi: u32) -> VersionSetId {
        let name = self.pool.intern_package_name(n.to_string());
        self.pool.intern_version_set(name, R(lo, hi))
    }
    fn describe(&self, s: SolvableId) -> (String, u32) {
        let sv = self.pool.resolve_solvable(s);
        (self.pool.resolve_package_name(sv.name).clone(), sv.record)
    }
}

impl Interner for Prov {
    fn display_solvable(&self, s: SolvableId) -> impl Display + '_ {
        let (n, v) = self.describe(s);
        format!("{n}={v}")
    }
    fn display_name(&self, name: NameId) -> impl Display + '_ {
        self.pool.resolve_package_name(name).clone()
    }
    fn display_version_set(&self, vs: VersionSetId) -> impl Display + '_ {
        self.pool.resolve_version_set(vs).clone()
    }
    fn display_string(&self, s: StringId) -> impl Display + '_ {
        self.pool.resolve_string(s).to_owned()
    }
    fn version_set_name(&self, vs: VersionSetId) -> NameId {
        self.pool.resolve_version_set_package_name(vs)
    }
    fn solvable_name(&self, s: SolvableId) -> NameId {
        self.pool.resolve_solvable(s).name
    }
    fn version_sets_in_union(&self, u: VersionSetUnionId) -> impl Iterator<Item = VersionSetId> {
        self.pool.resolve_version_set_union(u)
    }
}

impl DependencyProvider for Prov {
    async fn filter_candidates(
        &self,
        candidates: &[SolvableId],
        version_set: VersionSetId,
        inverse: bool,
    ) -> Vec<SolvableId> {
        let r = self.pool.resolve_version_set(version_set);
        candidates
            .iter()
            .copied()
            .filter(|s| {
                let v = self.pool.resolve_solvable(*s).record;
                (r.0 <= v && v < r.1) != inverse
            })
            .collect()
    }
    async fn get_candidates(&self, name: NameId) -> Option<Candidates> {
        let n = self.pool.resolve_package_name(name).clone();
        let mut c = Candidates::default();
        for p in self.pkgs.iter().filter(|p| p.0 == n) {
            let s = self.solvable(p.0, p.1);
            c.candidates.push(s);
            if self.excluded.contains(&(p.0, p.1)) {
                c.excluded.push((s, self.pool.intern_string("excluded")));
            }
        }
        if c.candidates.is_empty() {
            return None;
        }
        if self.hint_all.iter().any(|h| *h == n) {
            c.hint_dependencies_available = HintDependenciesAvailable::All;
        }
        Some(c)
    }
    async fn sort_candidates(&self, _: &SolverCache<Self>, solvables: &mut [SolvableId]) {
        // highest version first
        solvables.sort_by_key(|s| std::cmp::Reverse(self.pool.resolve_solvable(*s).record));
    }
    async fn get_dependencies(&self, solvable: SolvableId) -> Dependencies {
        let (n, v) = self.describe(solvable);
        let p = self.pkgs.iter().find(|p| p.0 == n && p.1 == v).unwrap();
        Dependencies::Known(KnownDependencies {
            requirements: p
                .2
                .iter()
                .map(|(n, lo, hi)| Requirement::from(self.vs(n, *lo, *hi)))
                .collect(),
            constrains: p.3.iter().map(|(n, lo, hi)| self.vs(n, *lo, *hi)).collect(),
        })
    }
}

fn solve(
    prov: Prov,
    root: Vec<(&'static str, u32, u32)>,
    soft: Vec<(&'static str, u32)>,
) -> Vec<(String, u32)> {
    let reqs = root
        .iter()
        .map(|(n, lo, hi)| Requirement::from(prov.vs(n, *lo, *hi)))
        .collect();
    let soft: Vec<SolvableId> = soft.iter().map(|(n, v)| prov.solvable(n, *v)).collect();
    let mut solver = Solver::new(prov);
    match solver.solve(Problem::new().requirements(reqs).soft_requirements(soft)) {
        Ok(s) => {
            let mut v: Vec<_> = s.iter().map(|s| solver.provider().describe(*s)).collect();
            v.sort();
            v
        }
        Err(UnsolvableOrCancelled::Unsolvable(c)) => {
            panic!("unsolvable: {}", c.display_user_friendly(&solver))
        }
        Err(UnsolvableOrCancelled::Cancelled(_)) => panic!("cancelled"),
    }
}

const ANY: (u32, u32) = (0, 100);

/// O2.  x=1 is on the exclusion list of its package but named directly as a soft requirement,
/// so it is installed (nobody asked for the candidates of `x` yet).  The second soft requirement
/// y=1 requires `x`: now the candidates of `x` arrive, the exclusion clause (NOT x=1) becomes a
/// permanent entry of `negative_assertions` (src/solver/encoding.rs:396) that contradicts the
/// installed x=1.  y=1 is (rightly or wrongly) given up, but from then on EVERY call of
/// `propagate` fails in `decide_assertions` (src/solver/mod.rs:1143-1150), so the unrelated,
/// trivially installable soft requirement z=1 is dropped as well.
#[test]
fn every_later_soft_requirement_is_dropped_after_an_excluded_one_was_kept() {
    let mut prov = Prov::new(vec![
        ("x", 1, vec![], vec![]),
        ("y", 1, vec![("x", ANY.0, ANY.1)], vec![]),
        ("z", 1, vec![], vec![]),
        ("r", 1, vec![], vec![]),
    ]);
    prov.excluded = vec![("x", 1)];
    let sol = solve(prov, vec![("r", ANY.0, ANY.1)], vec![("x", 1), ("y", 1), ("z", 1)]);
    assert!(
        sol.contains(&("z".to_string(), 1)),
        "z=1 has no dependencies and conflicts with nothing, but the solution is {sol:?}"
    );
}
