//! Repro (hunt 3, kind P4-ROOT-REQUIREMENT-CONTRADICTION): the user-friendly message makes two
//! contradictory top-level statements about ONE root requirement:
//!
//!   p0 0..100 cannot be installed because there are no viable options:
//!   └─ p0 p0=1 would require
//!      └─ p1 0..100, for which no candidates were found.
//!   The following packages are incompatible
//!   └─ p0 0..100 can be installed with any of the following options:
//!      └─ p0 p0=2
//!   ├─ the constraint p0 1..2 cannot be fulfilled
//!
//! Universe: p0=1 requires p1 (a package without candidates), p0=2 requires nothing.
//! Problem:  root requires `p0 0..100`, root constrains `p0 1..2`.
//! (p0=1 is ruled out by the missing dependency, p0=2 by the root constraint.)
//!
//! Property (P4, message level): what the message says at the top level about one root
//! requirement is consistent - it either "cannot be installed because there are no viable
//! options" (then all its candidates are listed) or "can be installed with ..." - not both.
//! With more candidates the candidates that are neither "missing" nor "installable" are not
//! mentioned anywhere although the first statement claims to list the options (e.g. an excluded
//! candidate, or one whose dependency is ruled out by a constrains).
//!
//! Cause: src/conflict.rs:983-996 (`impl Display for DisplayUnsat`): the outgoing edges of the
//! root are partitioned by "target is in the missing set" - per EDGE, not per requirement - and
//! each part is rendered by its own `fmt_graph` call, so the candidates of one requirement are
//! split over two trees and the requirement is judged twice, each time on a part of its
//! candidates.  On top of that `get_installable_set` (src/conflict.rs:466-523) only looks at
//! OUTGOING conflict edges, so a candidate that the root itself rules out (root constraint /
//! lock edge root -> candidate) counts as installable.
//!
//! Copy to tests/ and run:  cargo test --offline --test repro_message_contradiction
use std::{any::Any, cell::RefCell, collections::HashMap, fmt::Display};

use resolvo::{
    Candidates, Dependencies, DependencyProvider, Interner, KnownDependencies, NameId, Problem,
    SolvableId, Solver, SolverCache, StringId, UnsolvableOrCancelled, VersionSetId,
    VersionSetUnionId,
    utils::{Pool, VersionSet},
};

/// half open range of versions
#[derive(Clone, Debug, PartialEq, Eq, Hash)]
struct Range(u32, u32);
impl VersionSet for Range {
    type V = u32;
}
impl Display for Range {
    fn fmt(&self, f: &mut std::fmt::Formatter<'_>) -> std::fmt::Result {
        write!(f, "{}..{}", self.0, self.1)
    }
}

type Spec = (&'static str, u32, u32);
struct Pkg {
    name: &'static str,
    version: u32,
    requires: Vec<Spec>,
    constrains: Vec<Spec>,
}

struct Provider {
    pool: Pool<Range, String>,
    pkgs: Vec<Pkg>,
    ids: RefCell<HashMap<(String, u32), SolvableId>>,
}
impl Provider {
    fn new(pkgs: Vec<Pkg>) -> Self {
        Self { pool: Pool::new(), pkgs, ids: Default::default() }
    }
    fn solvable(&self, name: &str, version: u32) -> SolvableId {
        let n = self.pool.intern_package_name(name.to_string());
        *self
            .ids
            .borrow_mut()
            .entry((name.to_string(), version))
            .or_insert_with(|| self.pool.intern_solvable(n, version))
    }
    fn vs(&self, s: &Spec) -> VersionSetId {
        let n = self.pool.intern_package_name(s.0.to_string());
        self.pool.intern_version_set(n, Range(s.1, s.2))
    }
    fn describe(&self, s: SolvableId) -> String {
        let sv = self.pool.resolve_solvable(s);
        format!("{}={}", self.pool.resolve_package_name(sv.name), sv.record)
    }
}
impl Interner for Provider {
    fn display_solvable(&self, s: SolvableId) -> impl Display + '_ {
        self.describe(s)
    }
    fn display_name(&self, name: NameId) -> impl Display + '_ {
        self.pool.resolve_package_name(name).clone()
    }
    fn display_version_set(&self, vs: VersionSetId) -> impl Display + '_ {
        self.pool.resolve_version_set(vs).clone()
    }
    fn display_string(&self, s: StringId) -> impl Display + '_ {
        self.pool.resolve_string(s).to_owned()
    }
    fn version_set_name(&self, vs: VersionSetId) -> NameId {
        self.pool.resolve_version_set_package_name(vs)
    }
    fn solvable_name(&self, s: SolvableId) -> NameId {
        self.pool.resolve_solvable(s).name
    }
    fn version_sets_in_union(&self, u: VersionSetUnionId) -> impl Iterator<Item = VersionSetId> {
        self.pool.resolve_version_set_union(u)
    }
}
impl DependencyProvider for Provider {
    async fn filter_candidates(
        &self,
        candidates: &[SolvableId],
        version_set: VersionSetId,
        inverse: bool,
    ) -> Vec<SolvableId> {
        let r = self.pool.resolve_version_set(version_set);
        candidates
            .iter()
            .copied()
            .filter(|s| {
                let v = self.pool.resolve_solvable(*s).record;
                (r.0 <= v && v < r.1) != inverse
            })
            .collect()
    }
    async fn get_candidates(&self, name: NameId) -> Option<Candidates> {
        let name = self.pool.resolve_package_name(name).clone();
        let mut c = Candidates::default();
        for p in self.pkgs.iter().filter(|p| p.name == name) {
            c.candidates.push(self.solvable(p.name, p.version));
        }
        if c.candidates.is_empty() { None } else { Some(c) }
    }
    async fn sort_candidates(&self, _: &SolverCache<Self>, solvables: &mut [SolvableId]) {
        // highest version first
        solvables.sort_by_key(|s| std::cmp::Reverse(self.pool.resolve_solvable(*s).record));
    }
    async fn get_dependencies(&self, solvable: SolvableId) -> Dependencies {
        let sv = self.pool.resolve_solvable(solvable);
        let name = self.pool.resolve_package_name(sv.name);
        let p = self
            .pkgs
            .iter()
            .find(|p| p.name == name && p.version == sv.record)
            .unwrap();
        Dependencies::Known(KnownDependencies {
            requirements: p.requires.iter().map(|s| self.vs(s).into()).collect(),
            constrains: p.constrains.iter().map(|s| self.vs(s)).collect(),
        })
    }
    fn should_cancel_with_value(&self) -> Option<Box<dyn Any>> {
        None
    }
}

fn pkg(name: &'static str, version: u32, requires: Vec<Spec>) -> Pkg {
    Pkg { name, version, requires, constrains: vec![] }
}

#[test]
fn message_is_consistent_about_a_root_requirement() {
    let provider = Provider::new(vec![
        pkg("p0", 1, vec![("p1", 0, 100)]),
        pkg("p0", 2, vec![]),
    ]);
    let requirements = vec![provider.vs(&("p0", 0, 100)).into()];
    let constraints = vec![provider.vs(&("p0", 1, 2))];
    let mut solver = Solver::new(provider);
    let problem = Problem::new()
        .requirements(requirements)
        .constraints(constraints);
    let conflict = match solver.solve(problem) {
        Err(UnsolvableOrCancelled::Unsolvable(c)) => c,
        other => panic!("expected Unsolvable, got {:?}", other.map_err(|_| "cancelled")),
    };
    let message = conflict.display_user_friendly(&solver).to_string();
    println!("{message}");
    let cannot = message.contains("p0 0..100 cannot be installed because there are no viable options");
    let can = message.contains("p0 0..100 can be installed with any of the following options");
    assert!(
        !(cannot && can),
        "the message says both that `p0 0..100` cannot be installed because there are no viable \
         options and that it can be installed with some options:\n{message}"
    );
}
