//! Repro (hunt 3, kind P1-FORBID-SELF): the conflict graph contains an edge
//! `X --ForbidMultipleInstances--> X`, i.e. the report states that a solvable conflicts with
//! itself ("only one version of the package can be installed").
//!
//! Universe: package `a` with the versions 1, 2 and 4, no dependencies at all.
//! Problem:  root requires `a 1..2` and `a 2..5`  (unsolvable: a=1 versus a=2|a=4).
//!
//! Property (C03 / P1): every ForbidMultipleInstances edge joins two DIFFERENT solvables of one
//! package.
//!
//! Cause: src/conflict.rs:127-147 (`Conflict::graph`, arm `Clause::ForbidMultipleInstances`).
//! The at-most-one constraint of a package is binary encoded (src/solver/binary_encoding.rs): a
//! solvable has one clause (¬s ∨ ±h_b) per helper variable h_b.  `graph` turns every such
//! clause of the conflict into an edge "previous solvable seen for this package -> this
//! solvable" (`last_node_by_name`).  As soon as a package has 3 or more candidates there are 2
//! helper variables, two clauses of ONE solvable can be part of the conflict, and the second one
//! becomes the self loop `s -> s`.
//!
//! Copy to tests/ and run:  cargo test --offline --test repro_forbid_self
use std::{any::Any, cell::RefCell, collections::HashMap, fmt::Display};

use petgraph::visit::EdgeRef;
use resolvo::{
    Candidates, Dependencies, DependencyProvider, Interner, KnownDependencies, NameId, Problem,
    SolvableId, Solver, SolverCache, StringId, UnsolvableOrCancelled, VersionSetId,
    VersionSetUnionId,
    conflict::{ConflictCause, ConflictEdge, ConflictNode},
    utils::{Pool, VersionSet},
};

/// half open range of versions
#[derive(Clone, Debug, PartialEq, Eq, Hash)]
struct Range(u32, u32);
impl VersionSet for Range {
    type V = u32;
}
impl Display for Range {
    fn fmt(&self, f: &mut std::fmt::Formatter<'_>) -> std::fmt::Result {
        write!(f, "{}..{}", self.0, self.1)
    }
}

type Spec = (&'static str, u32, u32);
struct Pkg {
    name: &'static str,
    version: u32,
    requires: Vec<Spec>,
    constrains: Vec<Spec>,
}

struct Provider {
    pool: Pool<Range, String>,
    pkgs: Vec<Pkg>,
    ids: RefCell<HashMap<(String, u32), SolvableId>>,
}
impl Provider {
    fn new(pkgs: Vec<Pkg>) -> Self {
        Self { pool: Pool::new(), pkgs, ids: Default::default() }
    }
    fn solvable(&self, name: &str, version: u32) -> SolvableId {
        let n = self.pool.intern_package_name(name.to_string());
        *self
            .ids
            .borrow_mut()
            .entry((name.to_string(), version))
            .or_insert_with(|| self.pool.intern_solvable(n, version))
    }
    fn vs(&self, s: &Spec) -> VersionSetId {
        let n = self.pool.intern_package_name(s.0.to_string());
        self.pool.intern_version_set(n, Range(s.1, s.2))
    }
    fn describe(&self, s: SolvableId) -> String {
        let sv = self.pool.resolve_solvable(s);
        format!("{}={}", self.pool.resolve_package_name(sv.name), sv.record)
    }
}
impl Interner for Provider {
    fn display_solvable(&self, s: SolvableId) -> impl Display + '_ {
        self.describe(s)
    }
    fn display_name(&self, name: NameId) -> impl Display + '_ {
        self.pool.resolve_package_name(name).clone()
    }
    fn display_version_set(&self, vs: VersionSetId) -> impl Display + '_ {
        self.pool.resolve_version_set(vs).clone()
    }
    fn display_string(&self, s: StringId) -> impl Display + '_ {
        self.pool.resolve_string(s).to_owned()
    }
    fn version_set_name(&self, vs: VersionSetId) -> NameId {
        self.pool.resolve_version_set_package_name(vs)
    }
    fn solvable_name(&self, s: SolvableId) -> NameId {
        self.pool.resolve_solvable(s).name
    }
    fn version_sets_in_union(&self, u: VersionSetUnionId) -> impl Iterator<Item = VersionSetId> {
        self.pool.resolve_version_set_union(u)
    }
}
impl DependencyProvider for Provider {
    async fn filter_candidates(
        &self,
        candidates: &[SolvableId],
        version_set: VersionSetId,
        inverse: bool,
    ) -> Vec<SolvableId> {
        let r = self.pool.resolve_version_set(version_set);
        candidates
            .iter()
            .copied()
            .filter(|s| {
                let v = self.pool.resolve_solvable(*s).record;
                (r.0 <= v && v < r.1) != inverse
            })
            .collect()
    }
    async fn get_candidates(&self, name: NameId) -> Option<Candidates> {
        let name = self.pool.resolve_package_name(name).clone();
        let mut c = Candidates::default();
        for p in self.pkgs.iter().filter(|p| p.name == name) {
            c.candidates.push(self.solvable(p.name, p.version));
        }
        if c.candidates.is_empty() { None } else { Some(c) }
    }
    async fn sort_candidates(&self, _: &SolverCache<Self>, solvables: &mut [SolvableId]) {
        // highest version first
        solvables.sort_by_key(|s| std::cmp::Reverse(self.pool.resolve_solvable(*s).record));
    }
    async fn get_dependencies(&self, solvable: SolvableId) -> Dependencies {
        let sv = self.pool.resolve_solvable(solvable);
        let name = self.pool.resolve_package_name(sv.name);
        let p = self
            .pkgs
            .iter()
            .find(|p| p.name == name && p.version == sv.record)
            .unwrap();
        Dependencies::Known(KnownDependencies {
            requirements: p.requires.iter().map(|s| self.vs(s).into()).collect(),
            constrains: p.constrains.iter().map(|s| self.vs(s)).collect(),
        })
    }
    fn should_cancel_with_value(&self) -> Option<Box<dyn Any>> {
        None
    }
}

fn pkg(name: &'static str, version: u32) -> Pkg {
    Pkg { name, version, requires: vec![], constrains: vec![] }
}

#[test]
fn forbid_multiple_instances_edge_joins_two_different_solvables() {
    let provider = Provider::new(vec![pkg("a", 1), pkg("a", 2), pkg("a", 4)]);
    let requirements = vec![
        provider.vs(&("a", 1, 2)).into(),
        provider.vs(&("a", 2, 5)).into(),
    ];
    let mut solver = Solver::new(provider);
    let problem = Problem::new().requirements(requirements);
    let conflict = match solver.solve(problem) {
        Err(UnsolvableOrCancelled::Unsolvable(c)) => c,
        other => panic!("expected Unsolvable, got {:?}", other.map_err(|_| "cancelled")),
    };
    let graph = conflict.graph(&solver);
    let provider = solver.provider();
    let name = |n: &ConflictNode| match n {
        ConflictNode::Solvable(s) => match s.solvable() {
            Some(s) => provider.describe(s),
            None => "<root>".to_string(),
        },
        ConflictNode::UnresolvedDependency => "<unresolved>".to_string(),
        ConflictNode::Excluded(_) => "<excluded>".to_string(),
    };
    let mut self_loops = vec![];
    for e in graph.graph.edge_references() {
        let (a, b) = (&graph.graph[e.source()], &graph.graph[e.target()]);
        println!("{} -> {}", name(a), name(b));
        if matches!(
            e.weight(),
            ConflictEdge::Conflict(ConflictCause::ForbidMultipleInstances)
        ) && e.source() == e.target()
        {
            self_loops.push(name(a));
        }
    }
    assert!(
        self_loops.is_empty(),
        "the conflict graph says that {self_loops:?} cannot be installed together with itself \
         (ForbidMultipleInstances edge from a solvable to the same solvable)"
    );
}
