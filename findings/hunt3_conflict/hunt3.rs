//! Randomized search harness (third hunt): how unsolvable problems are REPORTED.
//!
//! For every generated universe / problem whose verdict is Unsolvable, for every presentation
//! variant (hints / permuted ids / candidate order / yielding async / provider callbacks):
//!  P1 truthful      every edge of `conflict.graph(&solver)` is a fact of the provider
//!  P2 self-contained the facts shown in the graph alone make the root uninstallable
//!                   (tiny SAT problem built from the edges only, solved by DPLL)
//!  P3 complete      a requirement shown in the graph shows ALL its candidates
//!  P4 rendering     display_user_friendly / graphviz(simplify=true|false) terminate, do not
//!                   panic, are bounded in size, mention only things that exist and mention every
//!                   root requirement shown in the graph
//!  P5 determinism   P1-P4 hold for every presentation variant of the same universe
//! plus: the verdict Unsolvable itself is checked against a brute force reference, panics
//! (catch_unwind) and hangs (watchdog) are failures.
//!
//! Run e.g.
//!   HUNT_MODE=3 HUNT_CASES=200000 HUNT_SEED=1 cargo test --offline --release --test hunt3 random_search -- --nocapture
//!   HUNT_MODE=3 HUNT_SHRINK=1234 cargo test --offline --release --test hunt3 shrink_seed -- --nocapture
//!   HUNT_FILE=case.txt [HUNT_TRACE=1] cargo test --offline --test hunt3 run_file -- --nocapture
//! modes: 0 = hunt2 profiles, no soft requirements; 1 = hunt2 profiles + soft requirements;
//!        2 = reuse of one solver for several problems; 3 = unsat-biased generator;
//!        4 = unsat-biased generator + soft requirements; 5 = unsat-biased + reuse
use std::{
    any::Any,
    cell::RefCell,
    collections::{BTreeMap, BTreeSet, HashMap},
    fmt::{Display, Write as _},
    panic::{AssertUnwindSafe, catch_unwind},
    sync::{Arc, Mutex},
    time::{Duration, Instant},
};

use petgraph::{graph::NodeIndex, visit::EdgeRef};
use resolvo::{
    conflict::{ConflictCause, ConflictEdge, ConflictNode},
    Candidates, Dependencies, DependencyProvider, HintDependenciesAvailable, Interner,
    KnownDependencies, NameId, Problem, Requirement, SolvableId, Solver, SolverCache, StringId,
    UnsolvableOrCancelled, VersionSetId, VersionSetUnionId,
    utils::{Pool, VersionSet},
};

// ---------------------------------------------------------------------------
// Universe description (plain data, printable)
// ---------------------------------------------------------------------------

/// half-open version range [lo, hi) of package `name`
#[derive(Clone, Debug, PartialEq, Eq, Hash, PartialOrd, Ord)]
pub struct Spec {
    pub name: usize,
    pub lo: u32,
    pub hi: u32,
}

#[derive(Clone, Debug, Default)]
pub struct Pkg {
    pub name: usize,
    pub version: u32,
    /// each requirement is a union of specs
    pub deps: Vec<Vec<Spec>>,
    pub constrains: Vec<Spec>,
    /// `Dependencies::Unknown`
    pub unknown: bool,
}

#[derive(Clone, Debug, PartialEq, Eq)]
pub enum Hint {
    None,
    All,
    Some(Vec<u32>),
}

#[derive(Clone, Debug, Default)]
pub struct Prob {
    pub root_reqs: Vec<Vec<Spec>>,
    pub root_constraints: Vec<Spec>,
    pub soft: Vec<(usize, u32)>,
}

#[derive(Clone, Debug, Default)]
pub struct Universe {
    pub n_names: usize,
    pub pkgs: Vec<Pkg>,
    pub favored: BTreeMap<usize, u32>,
    pub locked: BTreeMap<usize, u32>,
    pub excluded: BTreeSet<(usize, u32)>,
    pub hints: BTreeMap<usize, Hint>,
    /// 0 = names interned in natural order, solvables interned lazily
    pub id_seed: u64,
    /// 0 = candidates listed in the order of `pkgs`
    pub cand_seed: u64,
    /// 0 = highest version first, 1 = lowest first, 2 = keep order, 3 = pseudo random
    pub sort_mode: u8,
    /// the problems (one, or several for the reuse scenario)
    pub probs: Vec<Prob>,
}

fn nm(i: usize) -> String {
    format!("p{i}")
}

impl Display for Spec {
    fn fmt(&self, f: &mut std::fmt::Formatter<'_>) -> std::fmt::Result {
        write!(f, "{} {}..{}", nm(self.name), self.lo, self.hi)
    }
}

fn union_str(u: &[Spec]) -> String {
    u.iter()
        .map(|s| s.to_string())
        .collect::<Vec<_>>()
        .join(" | ")
}

fn quoted_unions(v: &[Vec<Spec>]) -> String {
    v.iter()
        .map(|u| format!("\"{}\"", union_str(u)))
        .collect::<Vec<_>>()
        .join(", ")
}
fn quoted_specs(v: &[Spec]) -> String {
    v.iter()
        .map(|c| format!("\"{c}\""))
        .collect::<Vec<_>>()
        .join(", ")
}

impl Universe {
    pub fn dump(&self) -> String {
        let mut s = String::new();
        for p in &self.pkgs {
            writeln!(
                s,
                "  {}={}  requires [{}]  constrains [{}]{}",
                nm(p.name),
                p.version,
                quoted_unions(&p.deps),
                quoted_specs(&p.constrains),
                if p.unknown { "  UNKNOWN" } else { "" }
            )
            .unwrap();
        }
        for (n, v) in &self.locked {
            writeln!(s, "  LOCK {}={v}", nm(*n)).unwrap();
        }
        for (n, v) in &self.favored {
            writeln!(s, "  FAVOR {}={v}", nm(*n)).unwrap();
        }
        for (n, v) in &self.excluded {
            writeln!(s, "  EXCLUDE {}={v}", nm(*n)).unwrap();
        }
        for (n, h) in &self.hints {
            match h {
                Hint::None => {}
                Hint::All => writeln!(s, "  HINT {} all", nm(*n)).unwrap(),
                Hint::Some(v) => writeln!(
                    s,
                    "  HINT {} some {}",
                    nm(*n),
                    v.iter().map(|x| x.to_string()).collect::<Vec<_>>().join(",")
                )
                .unwrap(),
            }
        }
        writeln!(
            s,
            "  ORDER id_seed={} cand_seed={} sort={}",
            self.id_seed, self.cand_seed, self.sort_mode
        )
        .unwrap();
        for p in &self.probs {
            writeln!(s, "  PROBLEM").unwrap();
            writeln!(s, "  ROOT requires [{}]", quoted_unions(&p.root_reqs)).unwrap();
            writeln!(s, "  ROOT constrains [{}]", quoted_specs(&p.root_constraints)).unwrap();
            writeln!(
                s,
                "  SOFT [{}]",
                p.soft
                    .iter()
                    .map(|(n, v)| format!("{}={}", nm(*n), v))
                    .collect::<Vec<_>>()
                    .join(", ")
            )
            .unwrap();
        }
        s
    }
}

// ---------------------------------------------------------------------------
// Variants: how the same universe is presented to the solver
// ---------------------------------------------------------------------------

#[derive(Clone, Copy, Debug, PartialEq, Eq)]
pub enum HintMode {
    Off,
    FromUniverse,
    AllOn,
}

#[derive(Clone, Copy, Debug)]
pub struct Variant {
    pub label: &'static str,
    pub hints: HintMode,
    pub own_order: bool,
    /// the provider's async functions yield a pseudo random number of times
    pub yields: bool,
    /// `sort_candidates` looks at the dependencies of the candidates and at the candidates of
    /// the packages they depend on through the `SolverCache` it is given (as conda-style
    /// providers do)
    pub callbacks: bool,
}

pub const VARIANTS: &[Variant] = &[
    Variant { label: "V0:nohint/natural", hints: HintMode::Off, own_order: false, yields: false, callbacks: false },
    Variant { label: "V1:hints/natural", hints: HintMode::FromUniverse, own_order: false, yields: false, callbacks: false },
    Variant { label: "V2:allhints/natural", hints: HintMode::AllOn, own_order: false, yields: false, callbacks: false },
    Variant { label: "V3:hints/permuted", hints: HintMode::FromUniverse, own_order: true, yields: false, callbacks: false },
    Variant { label: "V4:nohint/permuted", hints: HintMode::Off, own_order: true, yields: false, callbacks: false },
    Variant { label: "V5:hints/permuted/yield", hints: HintMode::FromUniverse, own_order: true, yields: true, callbacks: false },
    Variant { label: "V6:allhints/natural/yield", hints: HintMode::AllOn, own_order: false, yields: true, callbacks: false },
    Variant { label: "V7:hints/permuted/callbacks", hints: HintMode::FromUniverse, own_order: true, yields: false, callbacks: true },
    Variant { label: "V8:nohint/natural/callbacks/yield", hints: HintMode::Off, own_order: false, yields: true, callbacks: true },
];

/// A runtime that simply polls the future until it is ready
pub struct Spin;
impl resolvo::runtime::AsyncRuntime for Spin {
    fn block_on<F: std::future::Future>(&self, f: F) -> F::Output {
        let mut f = std::pin::pin!(f);
        let mut cx = std::task::Context::from_waker(std::task::Waker::noop());
        let mut polls = 0u64;
        loop {
            if let std::task::Poll::Ready(v) = f.as_mut().poll(&mut cx) {
                return v;
            }
            polls += 1;
            assert!(polls < 50_000_000, "future never becomes ready");
        }
    }
}

struct YieldNow(bool);
impl std::future::Future for YieldNow {
    type Output = ();
    fn poll(
        mut self: std::pin::Pin<&mut Self>,
        cx: &mut std::task::Context<'_>,
    ) -> std::task::Poll<()> {
        if self.0 {
            std::task::Poll::Ready(())
        } else {
            self.0 = true;
            cx.waker().wake_by_ref();
            std::task::Poll::Pending
        }
    }
}

// ---------------------------------------------------------------------------
// xorshift
// ---------------------------------------------------------------------------

pub struct Rng(u64);
impl Rng {
    pub fn new(seed: u64) -> Self {
        let mut r = Rng(seed.wrapping_mul(0x9E3779B97F4A7C15) ^ 0xD1B54A32D192ED03);
        if r.0 == 0 {
            r.0 = 1;
        }
        for _ in 0..4 {
            r.next();
        }
        r
    }
    pub fn next(&mut self) -> u64 {
        let mut x = self.0;
        x ^= x << 13;
        x ^= x >> 7;
        x ^= x << 17;
        self.0 = x;
        x.wrapping_mul(0x2545F4914F6CDD1D)
    }
    pub fn below(&mut self, n: u64) -> u64 {
        (self.next() >> 11) % n
    }
    pub fn range(&mut self, lo: u64, hi_incl: u64) -> u64 {
        lo + self.below(hi_incl - lo + 1)
    }
    pub fn chance(&mut self, pct: u64) -> bool {
        self.below(100) < pct
    }
    pub fn shuffle<T>(&mut self, v: &mut [T]) {
        for i in (1..v.len()).rev() {
            let j = self.below(i as u64 + 1) as usize;
            v.swap(i, j);
        }
    }
}

// ---------------------------------------------------------------------------
// Provider
// ---------------------------------------------------------------------------

#[derive(Clone, Debug, PartialEq, Eq, Hash)]
pub struct R(u32, u32);
impl VersionSet for R {
    type V = u32;
}
impl Display for R {
    fn fmt(&self, f: &mut std::fmt::Formatter<'_>) -> std::fmt::Result {
        write!(f, "{}..{}", self.0, self.1)
    }
}

pub struct Prov {
    pool: Pool<R, String>,
    u: Universe,
    variant: Variant,
    interned: RefCell<HashMap<(NameId, u32), SolvableId>>,
    /// protocol violations of the solver observed by the provider
    pub complaints: RefCell<Vec<String>>,
    requested_candidates: RefCell<BTreeSet<usize>>,
    requested_deps: RefCell<BTreeSet<(usize, u32)>>,
    yield_state: std::cell::Cell<u64>,
}

impl Prov {
    async fn maybe_yield(&self) {
        if !self.variant.yields {
            return;
        }
        let mut x = self.yield_state.get();
        x ^= x << 13;
        x ^= x >> 7;
        x ^= x << 17;
        self.yield_state.set(x);
        for _ in 0..(x >> 20) % 4 {
            YieldNow(false).await;
        }
    }

    pub fn new(u: &Universe, variant: Variant) -> Self {
        let pool = Pool::new();
        let prov = Prov {
            pool,
            u: u.clone(),
            variant,
            interned: Default::default(),
            complaints: Default::default(),
            requested_candidates: Default::default(),
            requested_deps: Default::default(),
            yield_state: std::cell::Cell::new(u.cand_seed | 0x10),
        };
        if variant.own_order && u.id_seed != 0 {
            let mut r = Rng::new(u.id_seed);
            let mut names: Vec<usize> = (0..u.n_names).collect();
            r.shuffle(&mut names);
            for n in names {
                prov.pool.intern_package_name(nm(n));
            }
            let mut solvables: Vec<(usize, u32)> =
                u.pkgs.iter().map(|p| (p.name, p.version)).collect();
            r.shuffle(&mut solvables);
            for (n, v) in solvables {
                prov.solvable(n, v);
            }
        } else {
            for i in 0..u.n_names {
                prov.pool.intern_package_name(nm(i));
            }
        }
        prov
    }
    fn name_id(&self, n: usize) -> NameId {
        self.pool.intern_package_name(nm(n))
    }
    pub fn solvable(&self, n: usize, v: u32) -> SolvableId {
        let name = self.name_id(n);
        *self
            .interned
            .borrow_mut()
            .entry((name, v))
            .or_insert_with(|| self.pool.intern_solvable(name, v))
    }
    fn vs(&self, s: &Spec) -> VersionSetId {
        self.pool
            .intern_version_set(self.name_id(s.name), R(s.lo, s.hi))
    }
    pub fn req(&self, u: &[Spec]) -> Requirement {
        if u.len() == 1 {
            self.vs(&u[0]).into()
        } else {
            let mut it = u.iter().map(|s| self.vs(s));
            let first = it.next().unwrap();
            self.pool.intern_version_set_union(first, it).into()
        }
    }
    pub fn describe(&self, s: SolvableId) -> (usize, u32) {
        let sv = self.pool.resolve_solvable(s);
        let name = self.pool.resolve_package_name(sv.name);
        (name[1..].parse().unwrap(), sv.record)
    }
    /// the spec a version set id stands for
    pub fn vs_spec(&self, vs: VersionSetId) -> Spec {
        let r = self.pool.resolve_version_set(vs);
        let name = self
            .pool
            .resolve_package_name(self.pool.resolve_version_set_package_name(vs));
        Spec { name: name[1..].parse().unwrap(), lo: r.0, hi: r.1 }
    }
    /// the union of specs a requirement stands for
    pub fn req_specs(&self, r: Requirement) -> Vec<Spec> {
        match r {
            Requirement::Single(vs) => vec![self.vs_spec(vs)],
            Requirement::Union(u) => self
                .pool
                .resolve_version_set_union(u)
                .map(|vs| self.vs_spec(vs))
                .collect(),
        }
    }
    pub fn string(&self, s: StringId) -> String {
        self.pool.resolve_string(s).to_owned()
    }
    fn sort_key(&self, v: u32) -> u64 {
        let mode = if self.variant.own_order { self.u.sort_mode } else { 0 };
        match mode {
            0 => u64::MAX - v as u64,
            1 => v as u64,
            2 => 0,
            _ => (v as u64 ^ self.u.cand_seed).wrapping_mul(0x9E3779B97F4A7C15) >> 7,
        }
    }
}

impl Interner for Prov {
    fn display_solvable(&self, solvable: SolvableId) -> impl Display + '_ {
        let s = self.pool.resolve_solvable(solvable);
        format!("{}={}", self.pool.resolve_package_name(s.name), s.record)
    }
    fn display_name(&self, name: NameId) -> impl Display + '_ {
        self.pool.resolve_package_name(name).clone()
    }
    fn display_version_set(&self, version_set: VersionSetId) -> impl Display + '_ {
        self.pool.resolve_version_set(version_set).clone()
    }
    fn display_string(&self, string_id: StringId) -> impl Display + '_ {
        self.pool.resolve_string(string_id).to_owned()
    }
    fn version_set_name(&self, version_set: VersionSetId) -> NameId {
        self.pool.resolve_version_set_package_name(version_set)
    }
    fn solvable_name(&self, solvable: SolvableId) -> NameId {
        self.pool.resolve_solvable(solvable).name
    }
    fn version_sets_in_union(
        &self,
        version_set_union: VersionSetUnionId,
    ) -> impl Iterator<Item = VersionSetId> {
        self.pool.resolve_version_set_union(version_set_union)
    }
}

impl DependencyProvider for Prov {
    async fn filter_candidates(
        &self,
        candidates: &[SolvableId],
        version_set: VersionSetId,
        inverse: bool,
    ) -> Vec<SolvableId> {
        self.maybe_yield().await;
        let r = self.pool.resolve_version_set(version_set);
        candidates
            .iter()
            .copied()
            .filter(|s| {
                let v = self.pool.resolve_solvable(*s).record;
                (r.0 <= v && v < r.1) != inverse
            })
            .collect()
    }

    async fn get_candidates(&self, name: NameId) -> Option<Candidates> {
        let pname = self.pool.resolve_package_name(name);
        let n: usize = pname[1..].parse().unwrap();
        if !self.requested_candidates.borrow_mut().insert(n) {
            self.complaints
                .borrow_mut()
                .push(format!("duplicate get_candidates({pname})"));
        }
        self.maybe_yield().await;
        let mut versions: Vec<u32> = self
            .u
            .pkgs
            .iter()
            .filter(|p| p.name == n)
            .map(|p| p.version)
            .collect();
        if versions.is_empty() {
            return None;
        }
        if self.variant.own_order && self.u.cand_seed != 0 {
            Rng::new(self.u.cand_seed ^ (n as u64) << 20).shuffle(&mut versions);
        }
        let mut c = Candidates::default();
        for &v in &versions {
            let s = self.solvable(n, v);
            c.candidates.push(s);
            if self.u.favored.get(&n) == Some(&v) {
                c.favored = Some(s);
            }
            if self.u.locked.get(&n) == Some(&v) {
                c.locked = Some(s);
            }
            if self.u.excluded.contains(&(n, v)) {
                c.excluded.push((s, self.pool.intern_string("excluded")));
            }
        }
        for (en, ev) in &self.u.excluded {
            if *en == n && !versions.contains(ev) {
                c.excluded
                    .push((self.solvable(n, *ev), self.pool.intern_string("excluded")));
            }
        }
        if let Some(l) = self.u.locked.get(&n) {
            if !versions.contains(l) {
                c.locked = Some(self.solvable(n, *l));
            }
        }
        c.hint_dependencies_available = match self.variant.hints {
            HintMode::Off => HintDependenciesAvailable::None,
            HintMode::AllOn => HintDependenciesAvailable::All,
            HintMode::FromUniverse => match self.u.hints.get(&n) {
                None | Some(Hint::None) => HintDependenciesAvailable::None,
                Some(Hint::All) => HintDependenciesAvailable::All,
                Some(Hint::Some(vs)) => HintDependenciesAvailable::Some(
                    vs.iter().map(|v| self.solvable(n, *v)).collect(),
                ),
            },
        };
        Some(c)
    }

    async fn sort_candidates(&self, solver: &SolverCache<Self>, solvables: &mut [SolvableId]) {
        self.maybe_yield().await;
        if self.variant.callbacks {
            for &s in solvables.iter() {
                let names: Vec<NameId> = match solver.get_or_cache_dependencies(s).await {
                    Ok(Dependencies::Known(d)) => d
                        .requirements
                        .iter()
                        .flat_map(|r| match *r {
                            Requirement::Single(vs) => vec![vs],
                            Requirement::Union(u) => self.version_sets_in_union(u).collect(),
                        })
                        .map(|vs| self.version_set_name(vs))
                        .collect(),
                    _ => vec![],
                };
                for n in names {
                    let _ = solver.get_or_cache_candidates(n).await;
                }
            }
        }
        solvables.sort_by_key(|a| self.sort_key(self.pool.resolve_solvable(*a).record));
    }

    async fn get_dependencies(&self, solvable: SolvableId) -> Dependencies {
        let (n, v) = self.describe(solvable);
        // (with `callbacks` the provider itself uses the cache concurrently with the solver;
        // `SolverCache::get_or_cache_dependencies` has no in-flight bookkeeping, so a second
        // request for the same solvable is expected there)
        if !self.requested_deps.borrow_mut().insert((n, v)) && !self.variant.callbacks {
            self.complaints
                .borrow_mut()
                .push(format!("duplicate get_dependencies({}={v})", nm(n)));
        }
        self.maybe_yield().await;
        let Some(p) = self.u.pkgs.iter().find(|p| p.name == n && p.version == v) else {
            return Dependencies::Known(Default::default());
        };
        if p.unknown {
            return Dependencies::Unknown(self.pool.intern_string("unknown deps"));
        }
        Dependencies::Known(KnownDependencies {
            requirements: p.deps.iter().map(|u| self.req(u)).collect(),
            constrains: p.constrains.iter().map(|c| self.vs(c)).collect(),
        })
    }

    fn should_cancel_with_value(&self) -> Option<Box<dyn Any>> {
        None
    }
}

// ---------------------------------------------------------------------------
// Running
// ---------------------------------------------------------------------------

#[derive(Debug, Clone)]
pub enum Outcome {
    Ok(Vec<(usize, u32)>),
    /// Unsolvable; the strings are the failed checks of the conflict report, if any
    Unsolvable(Vec<String>),
    Cancelled,
    Panic(String),
}

impl Outcome {
    fn verdict(&self) -> &'static str {
        match self {
            Outcome::Ok(_) => "Ok",
            Outcome::Unsolvable(_) => "Unsolvable",
            Outcome::Cancelled => "Cancelled",
            Outcome::Panic(_) => "Panic",
        }
    }
}

thread_local! {
    static LAST_PANIC: RefCell<Option<String>> = const { RefCell::new(None) };
    static QUIET: RefCell<bool> = const { RefCell::new(false) };
}

pub fn install_quiet_hook() {
    static ONCE: std::sync::Once = std::sync::Once::new();
    ONCE.call_once(|| {
        let prev = std::panic::take_hook();
        let prev = Arc::new(Mutex::new(prev));
        std::panic::set_hook(Box::new(move |info| {
            let quiet = QUIET.with(|q| *q.borrow());
            if quiet {
                let loc = info
                    .location()
                    .map(|l| format!("{}:{}:{}", l.file(), l.line(), l.column()))
                    .unwrap_or_default();
                let msg = if let Some(s) = info.payload().downcast_ref::<&str>() {
                    s.to_string()
                } else if let Some(s) = info.payload().downcast_ref::<String>() {
                    s.clone()
                } else {
                    "<non-string payload>".to_string()
                };
                let msg: String = msg.chars().take(160).collect();
                LAST_PANIC.with(|p| *p.borrow_mut() = Some(format!("{msg} @ {loc}")));
            } else {
                (prev.lock().unwrap())(info);
            }
        }));
    });
}

fn quietly<T>(f: impl FnOnce() -> T) -> Result<T, String> {
    install_quiet_hook();
    QUIET.with(|q| *q.borrow_mut() = true);
    let r = catch_unwind(AssertUnwindSafe(f));
    QUIET.with(|q| *q.borrow_mut() = false);
    r.map_err(|_| {
        LAST_PANIC
            .with(|p| p.borrow_mut().take())
            .unwrap_or_else(|| "<unknown>".into())
    })
}

// watchdog -----------------------------------------------------------------

static WATCH: Mutex<Option<(String, Instant)>> = Mutex::new(None);

fn watch(stage: String) {
    *WATCH.lock().unwrap() = Some((stage, Instant::now()));
}
fn unwatch() {
    *WATCH.lock().unwrap() = None;
}
pub fn start_watchdog() {
    static ONCE: std::sync::Once = std::sync::Once::new();
    ONCE.call_once(|| {
        let limit: u64 = std::env::var("HUNT_HANG_SECS")
            .ok()
            .and_then(|s| s.parse().ok())
            .unwrap_or(20);
        std::thread::spawn(move || {
            loop {
                std::thread::sleep(Duration::from_millis(500));
                let g = WATCH.lock().unwrap();
                if let Some((stage, t)) = &*g {
                    if t.elapsed() > Duration::from_secs(limit) {
                        println!("=== HANG (> {limit}s): {stage}");
                        eprintln!("=== HANG (> {limit}s): {stage}");
                        std::process::exit(3);
                    }
                }
            }
        });
    });
}

// ---------------------------------------------------------------------------
// Conflict report checks (P1 - P4)
// ---------------------------------------------------------------------------

pub mod counters {
    use std::sync::atomic::AtomicU64;
    /// conflict reports (graphs) checked
    pub static REPORTS: AtomicU64 = AtomicU64::new(0);
    /// edges checked against the provider (P1)
    pub static EDGES: AtomicU64 = AtomicU64::new(0);
    /// (source, requirement) groups checked for completeness (P3)
    pub static REQ_GROUPS: AtomicU64 = AtomicU64::new(0);
    /// graphs given to the SAT check (P2)
    pub static P2_RUNS: AtomicU64 = AtomicU64::new(0);
    /// graphs that are only unsatisfiable with at-most-one over whole forbid chains (stat)
    pub static P2_EDGE_ONLY_SAT: AtomicU64 = AtomicU64::new(0);
    /// renderings (message + 2 x graphviz) checked (P4)
    pub static RENDERS: AtomicU64 = AtomicU64::new(0);
    pub static MAX_NODES: AtomicU64 = AtomicU64::new(0);
    pub static MAX_EDGES: AtomicU64 = AtomicU64::new(0);
    pub static MAX_MSG: AtomicU64 = AtomicU64::new(0);
    /// max of 1000 * message length / (nodes + edges)^2
    pub static MAX_MSG_RATIO: AtomicU64 = AtomicU64::new(0);
    pub static MAX_DOT: AtomicU64 = AtomicU64::new(0);
    /// reports with a forbid-multiple edge / a constrains edge / a lock edge / an exclusion /
    /// an unresolved node / a union requirement
    pub static WITH_FORBID: AtomicU64 = AtomicU64::new(0);
    pub static WITH_CONSTRAINS: AtomicU64 = AtomicU64::new(0);
    pub static WITH_LOCK: AtomicU64 = AtomicU64::new(0);
    pub static WITH_EXCLUDED: AtomicU64 = AtomicU64::new(0);
    pub static WITH_UNRESOLVED: AtomicU64 = AtomicU64::new(0);
    pub static WITH_UNION: AtomicU64 = AtomicU64::new(0);
    pub static WITH_MERGED: AtomicU64 = AtomicU64::new(0);
    pub static WITH_CYCLE: AtomicU64 = AtomicU64::new(0);
}
use std::sync::atomic::Ordering::Relaxed;

/// a node of the conflict graph in terms of the universe
#[derive(Clone, Debug, PartialEq, Eq, PartialOrd, Ord, Hash)]
pub enum N {
    Root,
    S(usize, u32),
    Unresolved,
    Excl(String),
}
impl Display for N {
    fn fmt(&self, f: &mut std::fmt::Formatter<'_>) -> std::fmt::Result {
        match self {
            N::Root => write!(f, "<root>"),
            N::S(n, v) => write!(f, "{}={v}", nm(*n)),
            N::Unresolved => write!(f, "<unresolved>"),
            N::Excl(r) => write!(f, "<excluded: {r}>"),
        }
    }
}

fn find_pkg(u: &Universe, n: usize, v: u32) -> Option<&Pkg> {
    u.pkgs.iter().find(|p| p.name == n && p.version == v)
}
fn spec_matches(s: &Spec, n: usize, v: u32) -> bool {
    s.name == n && s.lo <= v && v < s.hi
}
/// all candidates of a requirement according to the universe
fn expected_candidates(u: &Universe, un: &[Spec]) -> BTreeSet<(usize, u32)> {
    u.pkgs
        .iter()
        .filter(|p| un.iter().any(|s| spec_matches(s, p.name, p.version)))
        .map(|p| (p.name, p.version))
        .collect()
}
/// the requirements / constrains a node has according to the universe
fn facts_of<'a>(u: &'a Universe, p: &'a Prob, n: &N) -> (&'a [Vec<Spec>], &'a [Spec]) {
    match n {
        N::Root => (&p.root_reqs, &p.root_constraints),
        N::S(n, v) => match find_pkg(u, *n, *v) {
            Some(pk) if !pk.unknown => (&pk.deps, &pk.constrains),
            _ => (&[], &[]),
        },
        _ => (&[], &[]),
    }
}

/// Tiny DPLL.  Literals are +-(var+1).  Returns a model if satisfiable.
pub fn dpll(nvars: usize, clauses: &[Vec<i32>]) -> Option<Vec<bool>> {
    fn rec(asg: &mut Vec<Option<bool>>, clauses: &[Vec<i32>]) -> bool {
        // unit propagation
        let mut trail = vec![];
        loop {
            let mut changed = false;
            for c in clauses {
                let mut unassigned = None;
                let mut n_un = 0;
                let mut sat = false;
                for &l in c {
                    let v = (l.unsigned_abs() - 1) as usize;
                    match asg[v] {
                        Some(b) if b == (l > 0) => {
                            sat = true;
                            break;
                        }
                        Some(_) => {}
                        None => {
                            n_un += 1;
                            unassigned = Some(l);
                        }
                    }
                }
                if sat {
                    continue;
                }
                if n_un == 0 {
                    for v in trail {
                        asg[v] = None;
                    }
                    return false;
                }
                if n_un == 1 {
                    let l: i32 = unassigned.unwrap();
                    let v = (l.unsigned_abs() - 1) as usize;
                    asg[v] = Some(l > 0);
                    trail.push(v);
                    changed = true;
                }
            }
            if !changed {
                break;
            }
        }
        match asg.iter().position(|a| a.is_none()) {
            None => true,
            Some(v) => {
                // prefer "not installed": most variables are only constrained when installed
                for b in [false, true] {
                    asg[v] = Some(b);
                    if rec(asg, clauses) {
                        return true;
                    }
                }
                asg[v] = None;
                for v in trail {
                    asg[v] = None;
                }
                false
            }
        }
    }
    let mut asg = vec![None; nvars];
    if rec(&mut asg, clauses) {
        Some(asg.into_iter().map(|a| a.unwrap()).collect())
    } else {
        None
    }
}

/// names and solvables ("pN" / "pN=V") mentioned in a rendered text
fn mentions(msg: &str) -> (BTreeSet<usize>, BTreeSet<(usize, u32)>) {
    let b = msg.as_bytes();
    let mut names = BTreeSet::new();
    let mut solvables = BTreeSet::new();
    let mut i = 0;
    while i < b.len() {
        if b[i] == b'p'
            && (i == 0 || !b[i - 1].is_ascii_alphanumeric())
            && i + 1 < b.len()
            && b[i + 1].is_ascii_digit()
        {
            let mut j = i + 1;
            while j < b.len() && b[j].is_ascii_digit() {
                j += 1;
            }
            let name: usize = msg[i + 1..j].parse().unwrap_or(usize::MAX);
            names.insert(name);
            if j + 1 < b.len() && b[j] == b'=' && b[j + 1].is_ascii_digit() {
                let mut k = j + 1;
                while k < b.len() && b[k].is_ascii_digit() {
                    k += 1;
                }
                let v: u32 = msg[j + 1..k].parse().unwrap_or(u32::MAX);
                solvables.insert((name, v));
                j = k;
            }
            i = j;
        } else {
            i += 1;
        }
    }
    (names, solvables)
}

fn edge_label(prov: &Prov, w: &ConflictEdge) -> String {
    match w {
        ConflictEdge::Requires(r) => format!("requires \"{}\"", union_str(&prov.req_specs(*r))),
        ConflictEdge::Conflict(ConflictCause::Constrains(vs)) => {
            format!("constrains \"{}\"", prov.vs_spec(*vs))
        }
        ConflictEdge::Conflict(ConflictCause::Locked(l)) => {
            let (n, v) = prov.describe(*l);
            format!("locked {}={v}", nm(n))
        }
        ConflictEdge::Conflict(ConflictCause::ForbidMultipleInstances) => "forbid-multiple".into(),
        ConflictEdge::Conflict(ConflictCause::Excluded) => "excluded".into(),
    }
}

/// Checks P1 - P4 for one conflict report; returns the failed checks ("KIND: details")
fn check_conflict(
    solver: &Solver<Prov, Spin>,
    conflict: &resolvo::conflict::Conflict,
    u: &Universe,
    p: &Prob,
) -> Vec<String> {
    use counters::*;
    let prov = solver.provider();
    let g = match quietly(|| conflict.graph(solver)) {
        Ok(g) => g,
        Err(m) => return vec![format!("GRAPH-PANIC: {m}")],
    };
    REPORTS.fetch_add(1, Relaxed);
    let gr = &g.graph;
    let mut fails: Vec<String> = vec![];
    // HUNT_IGNORE=KIND1,KIND2: failure kinds that are not reported (known ones)
    let ignore: Vec<String> = std::env::var("HUNT_IGNORE")
        .map(|s| s.split(',').map(|x| x.to_string()).collect())
        .unwrap_or_default();
    let mut fail = |s: String| {
        let kind = s.split(':').next().unwrap_or("");
        if fails.len() < 8 && !ignore.iter().any(|i| i == kind) {
            fails.push(s)
        }
    };

    // --- nodes -------------------------------------------------------------
    let node_of = |nx: NodeIndex| -> N {
        match gr[nx] {
            ConflictNode::Solvable(s) => match s.solvable() {
                None => N::Root,
                Some(s) => {
                    let (n, v) = prov.describe(s);
                    N::S(n, v)
                }
            },
            ConflictNode::UnresolvedDependency => N::Unresolved,
            ConflictNode::Excluded(r) => N::Excl(prov.string(r)),
        }
    };
    let nodes: BTreeMap<usize, N> = gr.node_indices().map(|nx| (nx.index(), node_of(nx))).collect();
    MAX_NODES.fetch_max(gr.node_count() as u64, Relaxed);
    MAX_EDGES.fetch_max(gr.edge_count() as u64, Relaxed);
    if nodes.get(&g.root_node.index()) != Some(&N::Root) {
        fail(format!("P1-ROOT-NODE: root_node is {:?}", nodes.get(&g.root_node.index())));
    }
    {
        let mut seen = BTreeSet::new();
        for n in nodes.values() {
            if !seen.insert(n.clone()) {
                fail(format!("P1-DUPLICATE-NODE: {n} appears twice"));
            }
        }
        let unresolved: Vec<usize> = nodes
            .iter()
            .filter(|(_, n)| **n == N::Unresolved)
            .map(|(i, _)| *i)
            .collect();
        if unresolved != g.unresolved_node.iter().map(|n| n.index()).collect::<Vec<_>>() {
            fail(format!(
                "P1-UNRESOLVED-NODE: unresolved_node={:?} but unresolved nodes {unresolved:?}",
                g.unresolved_node
            ));
        }
    }
    // every node is reachable from the root
    {
        let mut seen = BTreeSet::new();
        let mut todo = vec![g.root_node];
        while let Some(nx) = todo.pop() {
            if seen.insert(nx.index()) {
                for e in gr.edges(nx) {
                    todo.push(e.target());
                }
            }
        }
        for (i, n) in &nodes {
            if !seen.contains(i) {
                fail(format!("P1-UNREACHABLE: node {n} is not reachable from the root"));
            }
        }
    }

    // --- edges (P1) ----------------------------------------------------------
    // (source node, requirement) -> targets
    let mut groups: BTreeMap<(usize, Requirement), Vec<N>> = BTreeMap::new();
    let (mut has_forbid, mut has_cons, mut has_lock, mut has_excl, mut has_union) =
        (false, false, false, false, false);
    for e in gr.edge_references() {
        EDGES.fetch_add(1, Relaxed);
        let src = &nodes[&e.source().index()];
        let dst = &nodes[&e.target().index()];
        let label = edge_label(prov, e.weight());
        let ctx = format!("{src} -> {dst} [{label}]");
        match e.weight() {
            ConflictEdge::Requires(req) => {
                let un = prov.req_specs(*req);
                if un.len() > 1 {
                    has_union = true;
                }
                if !matches!(src, N::Root | N::S(..)) {
                    fail(format!("P1-REQUIRES-SOURCE: {ctx}: source is not a solvable"));
                    continue;
                }
                let (reqs, _) = facts_of(u, p, src);
                if !reqs.iter().any(|r| *r == un) {
                    fail(format!("P1-REQUIRES-NOT-OWNED: {ctx}: {src} has no such requirement"));
                }
                match dst {
                    N::S(n, v) => {
                        if find_pkg(u, *n, *v).is_none() {
                            fail(format!("P1-REQUIRES-TARGET-UNKNOWN: {ctx}: target is not a candidate of its package"));
                        } else if !un.iter().any(|s| spec_matches(s, *n, *v)) {
                            fail(format!("P1-REQUIRES-TARGET-NO-MATCH: {ctx}: target does not match the requirement"));
                        }
                    }
                    N::Unresolved => {
                        let exp = expected_candidates(u, &un);
                        if !exp.is_empty() {
                            fail(format!("P1-UNRESOLVED-HAS-CANDIDATES: {ctx}: candidates {exp:?} exist"));
                        }
                    }
                    _ => fail(format!("P1-REQUIRES-TARGET: {ctx}: bad target kind")),
                }
                groups.entry((e.source().index(), *req)).or_default().push(dst.clone());
            }
            ConflictEdge::Conflict(ConflictCause::Constrains(vs)) => {
                has_cons = true;
                let spec = prov.vs_spec(*vs);
                if !matches!(src, N::Root | N::S(..)) {
                    fail(format!("P1-CONSTRAINS-SOURCE: {ctx}: source is not a solvable"));
                    continue;
                }
                let (_, cons) = facts_of(u, p, src);
                if !cons.contains(&spec) {
                    fail(format!("P1-CONSTRAINS-NOT-OWNED: {ctx}: {src} has no such constrains"));
                }
                match dst {
                    N::S(n, v) => {
                        if find_pkg(u, *n, *v).is_none() {
                            fail(format!("P1-CONSTRAINS-TARGET-UNKNOWN: {ctx}: target is not a candidate"));
                        } else if *n != spec.name {
                            fail(format!("P1-CONSTRAINS-TARGET-PACKAGE: {ctx}: target is of another package"));
                        } else if spec_matches(&spec, *n, *v) {
                            fail(format!("P1-CONSTRAINS-TARGET-MATCHES: {ctx}: target satisfies the constraint"));
                        }
                    }
                    _ => fail(format!("P1-CONSTRAINS-TARGET: {ctx}: bad target kind")),
                }
            }
            ConflictEdge::Conflict(ConflictCause::Locked(l)) => {
                has_lock = true;
                let (ln, lv) = prov.describe(*l);
                if *src != N::Root {
                    fail(format!("P1-LOCK-SOURCE: {ctx}: source is not the root"));
                }
                if u.locked.get(&ln) != Some(&lv) {
                    fail(format!("P1-LOCK-NOT-LOCKED: {ctx}: {} is not locked to {lv}", nm(ln)));
                }
                match dst {
                    N::S(n, v) => {
                        if *n != ln {
                            fail(format!("P1-LOCK-TARGET-PACKAGE: {ctx}: target is of another package"));
                        } else if *v == lv {
                            fail(format!("P1-LOCK-TARGET-IS-LOCKED: {ctx}: target is the locked solvable"));
                        } else if find_pkg(u, *n, *v).is_none() {
                            fail(format!("P1-LOCK-TARGET-UNKNOWN: {ctx}: target is not a candidate"));
                        }
                    }
                    _ => fail(format!("P1-LOCK-TARGET: {ctx}: bad target kind")),
                }
            }
            ConflictEdge::Conflict(ConflictCause::Excluded) => {
                has_excl = true;
                match (src, dst) {
                    (N::S(n, v), N::Excl(reason)) => {
                        let ok = match reason.as_str() {
                            "excluded" => u.excluded.contains(&(*n, *v)),
                            "unknown deps" => find_pkg(u, *n, *v).is_some_and(|p| p.unknown),
                            _ => false,
                        };
                        if !ok {
                            fail(format!("P1-EXCLUDED-NOT-EXCLUDED: {ctx}: the provider did not exclude it for that reason"));
                        }
                    }
                    _ => fail(format!("P1-EXCLUDED-ENDS: {ctx}: bad node kinds")),
                }
            }
            ConflictEdge::Conflict(ConflictCause::ForbidMultipleInstances) => {
                has_forbid = true;
                match (src, dst) {
                    (N::S(n1, v1), N::S(n2, v2)) => {
                        if n1 != n2 {
                            fail(format!("P1-FORBID-PACKAGES: {ctx}: different packages"));
                        } else if v1 == v2 {
                            fail(format!("P1-FORBID-SELF: {ctx}: a solvable is said to conflict with itself"));
                        }
                    }
                    _ => fail(format!("P1-FORBID-ENDS: {ctx}: bad node kinds")),
                }
            }
        }
    }
    // only the proper edge kinds enter the special nodes
    for e in gr.edge_references() {
        let dst = &nodes[&e.target().index()];
        let ok = match (dst, e.weight()) {
            (N::Unresolved, ConflictEdge::Requires(_)) => true,
            (N::Unresolved, _) => false,
            (N::Excl(_), ConflictEdge::Conflict(ConflictCause::Excluded)) => true,
            (N::Excl(_), _) => false,
            (N::Root, _) => false,
            _ => true,
        };
        if !ok {
            fail(format!(
                "P1-EDGE-INTO-SPECIAL: {} -> {dst} [{}]",
                nodes[&e.source().index()],
                edge_label(prov, e.weight())
            ));
        }
        if matches!(nodes[&e.source().index()], N::Unresolved | N::Excl(_)) {
            fail(format!("P1-EDGE-FROM-SPECIAL: {} -> {dst}", nodes[&e.source().index()]));
        }
    }
    for (flag, c) in [
        (has_forbid, &WITH_FORBID),
        (has_cons, &WITH_CONSTRAINS),
        (has_lock, &WITH_LOCK),
        (has_excl, &WITH_EXCLUDED),
        (g.unresolved_node.is_some(), &WITH_UNRESOLVED),
        (has_union, &WITH_UNION),
    ] {
        if flag {
            c.fetch_add(1, Relaxed);
        }
    }
    if petgraph::algo::is_cyclic_directed(gr) {
        WITH_CYCLE.fetch_add(1, Relaxed);
    }

    // --- P3: a requirement that is shown shows all its candidates ---------------
    for ((src, req), targets) in &groups {
        REQ_GROUPS.fetch_add(1, Relaxed);
        let un = prov.req_specs(*req);
        let exp = expected_candidates(u, &un);
        let shown: BTreeSet<(usize, u32)> = targets
            .iter()
            .filter_map(|t| match t {
                N::S(n, v) => Some((*n, *v)),
                _ => None,
            })
            .collect();
        let shows_unresolved = targets.contains(&N::Unresolved);
        let ctx = format!("{} requires \"{}\"", nodes[src], union_str(&un));
        if exp.is_empty() {
            if !shows_unresolved || !shown.is_empty() {
                fail(format!("P3-NO-CANDIDATES-NOT-UNRESOLVED: {ctx}: shown {targets:?}"));
            }
        } else {
            if shows_unresolved {
                fail(format!("P3-UNRESOLVED-AND-CANDIDATES: {ctx}: shown {targets:?}"));
            }
            if shown != exp {
                let missing: Vec<_> = exp.difference(&shown).collect();
                let extra: Vec<_> = shown.difference(&exp).collect();
                fail(format!("P3-INCOMPLETE: {ctx}: missing {missing:?} extra {extra:?}"));
            }
        }
    }

    // --- P2: the graph alone is a proof ------------------------------------------
    {
        P2_RUNS.fetch_add(1, Relaxed);
        let svars: Vec<usize> = nodes
            .iter()
            .filter(|(_, n)| matches!(n, N::Root | N::S(..)))
            .map(|(i, _)| *i)
            .collect();
        let var = |node: usize| -> i32 { svars.iter().position(|x| *x == node).unwrap() as i32 + 1 };
        let mut base: Vec<Vec<i32>> = vec![vec![var(g.root_node.index())]];
        let mut by_group: BTreeMap<(usize, Requirement), Vec<i32>> = BTreeMap::new();
        let mut forbid_edges: Vec<(usize, usize)> = vec![];
        for e in gr.edge_references() {
            let (s, t) = (e.source().index(), e.target().index());
            match e.weight() {
                ConflictEdge::Requires(req) => {
                    let c = by_group.entry((s, *req)).or_insert_with(|| vec![-var(s)]);
                    if matches!(nodes[&t], N::S(..) | N::Root) {
                        c.push(var(t));
                    }
                }
                ConflictEdge::Conflict(ConflictCause::Constrains(_)) => {
                    if matches!(nodes[&t], N::S(..) | N::Root) && matches!(nodes[&s], N::S(..) | N::Root) {
                        base.push(vec![-var(s), -var(t)]);
                    }
                }
                ConflictEdge::Conflict(ConflictCause::Locked(_)) => {
                    if matches!(nodes[&t], N::S(..)) {
                        base.push(vec![-var(t)]);
                    }
                }
                ConflictEdge::Conflict(ConflictCause::Excluded) => {
                    if matches!(nodes[&s], N::S(..)) {
                        base.push(vec![-var(s)]);
                    }
                }
                ConflictEdge::Conflict(ConflictCause::ForbidMultipleInstances) => {
                    if matches!(nodes[&t], N::S(..)) && matches!(nodes[&s], N::S(..)) && s != t {
                        forbid_edges.push((s, t));
                    }
                }
            }
        }
        base.extend(by_group.into_values());
        let name_of = |node: usize| match &nodes[&node] {
            N::S(n, _) => Some(*n),
            _ => None,
        };
        // L2: at most one solvable per package among all nodes of the graph
        let mut l2 = base.clone();
        for (i, a) in svars.iter().enumerate() {
            for b in &svars[i + 1..] {
                if name_of(*a).is_some() && name_of(*a) == name_of(*b) {
                    l2.push(vec![-var(*a), -var(*b)]);
                }
            }
        }
        let describe_model = |m: &[bool]| -> String {
            svars
                .iter()
                .enumerate()
                .filter(|(i, _)| m[*i])
                .map(|(_, n)| nodes[n].to_string())
                .collect::<Vec<_>>()
                .join(", ")
        };
        if let Some(m) = dpll(svars.len(), &l2) {
            fail(format!(
                "P2-NOT-A-PROOF: the facts of the graph allow installing {{{}}}",
                describe_model(&m)
            ));
        } else {
            // L1: at most one per package only among nodes connected through forbid edges
            let mut comp: BTreeMap<usize, usize> = svars.iter().map(|s| (*s, *s)).collect();
            fn root_of(comp: &BTreeMap<usize, usize>, mut x: usize) -> usize {
                while comp[&x] != x {
                    x = comp[&x];
                }
                x
            }
            for (a, b) in &forbid_edges {
                let (ra, rb) = (root_of(&comp, *a), root_of(&comp, *b));
                if ra != rb {
                    comp.insert(ra, rb);
                }
            }
            let mut l1 = base.clone();
            for (i, a) in svars.iter().enumerate() {
                for b in &svars[i + 1..] {
                    if name_of(*a).is_some()
                        && name_of(*a) == name_of(*b)
                        && root_of(&comp, *a) == root_of(&comp, *b)
                    {
                        l1.push(vec![-var(*a), -var(*b)]);
                    }
                }
            }
            if let Some(m) = dpll(svars.len(), &l1) {
                fail(format!(
                    "P2-FORBID-NOT-SHOWN: unsatisfiable only with one-per-package between nodes that no forbid edge joins; otherwise {{{}}}",
                    describe_model(&m)
                ));
            } else {
                // L0 (statistic only): every forbid edge excludes just its two ends
                let mut l0 = base.clone();
                for (a, b) in &forbid_edges {
                    l0.push(vec![-var(*a), -var(*b)]);
                }
                if dpll(svars.len(), &l0).is_some() {
                    P2_EDGE_ONLY_SAT.fetch_add(1, Relaxed);
                }
            }
        }
    }

    // --- P4: rendering -------------------------------------------------------------
    let rendered = quietly(|| {
        let s = conflict.display_user_friendly(solver).to_string();
        let mut out = Vec::new();
        g.graphviz(&mut out, prov, true).unwrap();
        let mut out2 = Vec::new();
        g.graphviz(&mut out2, prov, false).unwrap();
        (
            s,
            String::from_utf8(out).unwrap(),
            String::from_utf8(out2).unwrap(),
        )
    });
    match rendered {
        Err(m) => fail(format!("RENDER-PANIC: {m}")),
        Ok((msg, dot_simple, dot_full)) => {
            RENDERS.fetch_add(1, Relaxed);
            let size = (gr.node_count() + gr.edge_count()) as u64;
            MAX_MSG.fetch_max(msg.len() as u64, Relaxed);
            MAX_MSG_RATIO.fetch_max(1000 * msg.len() as u64 / (size * size).max(1), Relaxed);
            MAX_DOT.fetch_max(dot_full.len() as u64, Relaxed);
            if msg.len() as u64 > 1024 + 100 * size * size {
                fail(format!("P4-MESSAGE-SIZE: {} bytes for {} nodes / {} edges", msg.len(), gr.node_count(), gr.edge_count()));
            }
            for (what, dot) in [("simplified", &dot_simple), ("full", &dot_full)] {
                if dot.len() as u64 > 64 + 400 * gr.edge_count() as u64 {
                    fail(format!("P4-GRAPHVIZ-SIZE: {what}: {} bytes for {} edges", dot.len(), gr.edge_count()));
                }
                if !dot.starts_with("digraph {") || !dot.ends_with('}') {
                    fail(format!("P4-GRAPHVIZ-SHAPE: {what}: {dot}"));
                }
            }
            if dot_full.matches("->").count() != gr.edge_count() {
                fail(format!("P4-GRAPHVIZ-EDGES: full graphviz has {} edges, the graph {}", dot_full.matches("->").count(), gr.edge_count()));
            }
            if dot_simple.matches("->").count() > gr.edge_count() {
                fail(format!("P4-GRAPHVIZ-EDGES: simplified graphviz has more edges than the graph"));
            }
            if msg.trim().is_empty() {
                fail("P4-MESSAGE-EMPTY: the message is empty".to_string());
            }
            // everything that is mentioned exists (and is part of the conflict)
            let node_solvables: BTreeSet<(usize, u32)> = nodes
                .values()
                .filter_map(|n| match n {
                    N::S(n, v) => Some((*n, *v)),
                    _ => None,
                })
                .collect();
            let mut allowed = node_solvables.clone();
            for e in gr.edge_references() {
                if let ConflictEdge::Conflict(ConflictCause::Locked(l)) = e.weight() {
                    allowed.insert(prov.describe(*l));
                }
            }
            for (what, text) in [("message", &msg), ("graphviz", &dot_full), ("graphviz-simplified", &dot_simple)] {
                let (names, solvables) = mentions(text);
                for n in names {
                    if n >= u.n_names {
                        fail(format!("P4-MENTIONS-UNKNOWN-NAME: {what} mentions {}", nm(n)));
                    }
                }
                for (n, v) in solvables {
                    if !allowed.contains(&(n, v)) {
                        fail(format!("P4-MENTIONS-UNKNOWN-SOLVABLE: {what} mentions {}={v}, which is not in the graph", nm(n)));
                    }
                }
            }
            // every root requirement shown in the graph is mentioned in the message
            for e in gr.edges(g.root_node) {
                if let ConflictEdge::Requires(req) = e.weight() {
                    let text = req.display(prov).to_string();
                    if !msg.contains(&text) {
                        fail(format!("P4-ROOT-REQUIREMENT-NOT-MENTIONED: \"{text}\" is a child of the root in the graph but not in the message"));
                    }
                }
            }
            // the top level statements of the message about one root requirement do not
            // contradict each other, and a root requirement that "cannot be installed because
            // there are no viable options" lists all its candidates (merged ones with all
            // their versions)
            let top_lines: Vec<&str> = msg
                .lines()
                .map(|l| l.trim_start_matches(|c: char| c == ' ' || c == '│' || c == '├' || c == '└' || c == '─'))
                .collect();
            for ((src, req), targets) in &groups {
                if *src != g.root_node.index() {
                    continue;
                }
                let r = req.display(prov).to_string();
                let cannot = top_lines.iter().any(|l| l.starts_with(&format!("{r} cannot be installed because")));
                let can = top_lines.iter().any(|l| l.starts_with(&format!("{r} can be installed with")));
                let none = top_lines.iter().any(|l| l.starts_with(&format!("No candidates were found for {r}.")));
                if (cannot as u8) + (can as u8) + (none as u8) > 1 {
                    fail(format!("P4-ROOT-REQUIREMENT-CONTRADICTION: the message says about \"{r}\":{}{}{}",
                        if cannot { " [cannot be installed because there are no viable options]" } else { "" },
                        if can { " [can be installed with any of the following options]" } else { "" },
                        if none { " [no candidates were found]" } else { "" }));
                } else if cannot {
                    let (_, mentioned) = mentions(&msg);
                    for t in targets {
                        if let N::S(n, v) = t {
                            if !mentioned.contains(&(*n, *v)) {
                                fail(format!("P4-CANDIDATE-NOT-MENTIONED: {t} is a candidate of the root requirement \"{r}\" without viable options, but the message does not mention it"));
                            }
                        }
                    }
                }
            }
            // (optional) merged candidates must be interchangeable
            let merged = g.simplify(prov);
            if !merged.is_empty() {
                WITH_MERGED.fetch_add(1, Relaxed);
            }
            if std::env::var("HUNT_MERGE").is_ok() {
                let mut done = BTreeSet::new();
                for m in merged.values() {
                    let key: Vec<(usize, u32)> = m.ids.iter().map(|s| prov.describe(*s)).collect();
                    if !done.insert(key.clone()) {
                        continue;
                    }
                    let sig = |s: &(usize, u32), with_label: bool| -> Vec<String> {
                        let me = N::S(s.0, s.1);
                        let mut v = vec![];
                        for e in gr.edge_references() {
                            let (a, b) = (&nodes[&e.source().index()], &nodes[&e.target().index()]);
                            let kind = match e.weight() {
                                ConflictEdge::Requires(_) => "requires".to_string(),
                                ConflictEdge::Conflict(ConflictCause::Constrains(_)) => "constrains".to_string(),
                                w => edge_label(prov, w),
                            };
                            let l = if with_label { edge_label(prov, e.weight()) } else { kind };
                            if *a == me {
                                v.push(format!("out {l} {}", if *b == me { "self".to_string() } else { b.to_string() }));
                            } else if *b == me {
                                v.push(format!("in {l} {a}"));
                            }
                        }
                        v.sort();
                        v.dedup();
                        v
                    };
                    let first_kind = sig(&key[0], false);
                    let first_label = sig(&key[0], true);
                    for other in &key[1..] {
                        if sig(other, false) != first_kind {
                            fail(format!("M-MERGE-KIND: {key:?} are shown as one candidate but {:?} has {:?} and {:?} has {:?}", key[0], first_kind, other, sig(other, false)));
                        } else if sig(other, true) != first_label {
                            fail(format!("M-MERGE-LABEL: {key:?} are shown as one candidate but {:?} has {:?} and {:?} has {:?}", key[0], first_label, other, sig(other, true)));
                        }
                    }
                }
            }
            if !fails.is_empty() || std::env::var("HUNT_SHOW").is_ok() {
                let mut d = String::from("\n    --- graph ---\n");
                for e in gr.edge_references() {
                    writeln!(d, "    {} -> {} [{}]", nodes[&e.source().index()], nodes[&e.target().index()], edge_label(prov, e.weight())).unwrap();
                }
                d.push_str("    --- message ---\n");
                for l in msg.lines() {
                    writeln!(d, "    {l}").unwrap();
                }
                if std::env::var("HUNT_SHOW").is_ok() {
                    println!("{d}");
                }
                if let Some(f) = fails.first_mut() {
                    f.push_str(&d);
                }
            }
        }
    }
    fails
}

fn solve_one(solver: &mut Solver<Prov, Spin>, p: &Prob) -> Outcome {
    let r = quietly(|| {
        let prov = solver.provider();
        let reqs: Vec<Requirement> = p.root_reqs.iter().map(|r| prov.req(r)).collect();
        let cons: Vec<VersionSetId> = p.root_constraints.iter().map(|c| prov.vs(c)).collect();
        let soft: Vec<SolvableId> = p.soft.iter().map(|(n, v)| prov.solvable(*n, *v)).collect();
        let problem = Problem::new()
            .requirements(reqs)
            .constraints(cons)
            .soft_requirements(soft);
        solver.solve(problem)
    });
    match r {
        Ok(Ok(s)) => Outcome::Ok(s.iter().map(|s| solver.provider().describe(*s)).collect()),
        Ok(Err(UnsolvableOrCancelled::Unsolvable(c))) => {
            let u = solver.provider().u.clone();
            Outcome::Unsolvable(check_conflict(solver, &c, &u, p))
        }
        Ok(Err(UnsolvableOrCancelled::Cancelled(_))) => Outcome::Cancelled,
        Err(m) => Outcome::Panic(m),
    }
}

/// Solves all problems of the universe; `reuse`: on one solver, else a fresh one each time.
/// Also returns the complaints of the provider(s).
pub fn run(u: &Universe, variant: Variant, reuse: bool, tag: &str) -> (Vec<Outcome>, Vec<String>) {
    let mut out = vec![];
    let mut complaints = vec![];
    if reuse {
        let mut solver = Solver::new(Prov::new(u, variant)).with_runtime(Spin);
        for (i, p) in u.probs.iter().enumerate() {
            watch(format!("{tag} {} reuse problem#{i}", variant.label));
            let o = solve_one(&mut solver, p);
            let stop = matches!(o, Outcome::Panic(_));
            out.push(o);
            if stop {
                break;
            }
        }
        complaints.extend(solver.provider().complaints.borrow().iter().cloned());
    } else {
        for (i, p) in u.probs.iter().enumerate() {
            watch(format!("{tag} {} fresh problem#{i}", variant.label));
            let mut solver = Solver::new(Prov::new(u, variant)).with_runtime(Spin);
            out.push(solve_one(&mut solver, p));
            complaints.extend(solver.provider().complaints.borrow().iter().cloned());
        }
    }
    unwatch();
    (out, complaints)
}

// ---------------------------------------------------------------------------
// Independent checker + brute force reference
// ---------------------------------------------------------------------------

fn sat_spec(sol: &[(usize, u32)], s: &Spec) -> bool {
    sol.iter()
        .any(|(n, v)| *n == s.name && s.lo <= *v && *v < s.hi)
}
fn sat_union(sol: &[(usize, u32)], u: &[Spec]) -> bool {
    u.iter().any(|s| sat_spec(sol, s))
}
fn violates_constraint(sol: &[(usize, u32)], c: &Spec) -> Option<(usize, u32)> {
    sol.iter()
        .copied()
        .find(|(n, v)| *n == c.name && !(c.lo <= *v && *v < c.hi))
}

/// All violations of the solution (soft solvables are exempt from the lock / exclusion list
/// of their own package only)
pub fn validate(u: &Universe, p: &Prob, sol: &[(usize, u32)]) -> Vec<String> {
    let mut bad = vec![];
    for r in &p.root_reqs {
        if !sat_union(sol, r) {
            bad.push(format!("root requirement \"{}\" unsatisfied", union_str(r)));
        }
    }
    for c in &p.root_constraints {
        if let Some((n, v)) = violates_constraint(sol, c) {
            bad.push(format!("root constraint \"{c}\" violated by {}={v}", nm(n)));
        }
    }
    for (n, v) in sol {
        let is_soft = p.soft.contains(&(*n, *v));
        if let Some(pk) = u.pkgs.iter().find(|p| p.name == *n && p.version == *v) {
            if pk.unknown {
                bad.push(format!("selected {}={v} whose dependencies are Unknown", nm(*n)));
            } else {
                for r in &pk.deps {
                    if !sat_union(sol, r) {
                        bad.push(format!(
                            "{}={v}: requirement \"{}\" unsatisfied",
                            nm(*n),
                            union_str(r)
                        ));
                    }
                }
                for c in &pk.constrains {
                    if let Some((cn, cv)) = violates_constraint(sol, c) {
                        bad.push(format!(
                            "{}={v}: constrains \"{c}\" violated by {}={cv}",
                            nm(*n),
                            nm(cn)
                        ));
                    }
                }
            }
        } else {
            bad.push(format!("selected non-existing solvable {}={v}", nm(*n)));
        }
        if u.excluded.contains(&(*n, *v)) && !is_soft {
            bad.push(format!("selected excluded {}={v}", nm(*n)));
        }
        if let Some(l) = u.locked.get(n) {
            if l != v && !is_soft {
                bad.push(format!("selected {}={v} but locked to {l}", nm(*n)));
            }
        }
    }
    let mut seen = BTreeMap::new();
    for (n, v) in sol {
        if let Some(prev) = seen.insert(*n, *v) {
            if prev == *v {
                bad.push(format!("solvable {}={v} listed twice", nm(*n)));
            } else {
                bad.push(format!("two solvables of {}: {prev} and {v}", nm(*n)));
            }
        }
    }
    bad
}

/// Brute force: is there any valid selection for the hard problem (at most one version per
/// name, enumerated exhaustively)?  Returns a witness.
pub fn brute_force_slow(u: &Universe, p: &Prob) -> Option<Vec<(usize, u32)>> {
    // allowed versions per name
    let mut options: Vec<Vec<u32>> = vec![vec![]; u.n_names];
    for pk in &u.pkgs {
        if pk.unknown || u.excluded.contains(&(pk.name, pk.version)) {
            continue;
        }
        if let Some(l) = u.locked.get(&pk.name) {
            if *l != pk.version {
                continue;
            }
        }
        if !options[pk.name].contains(&pk.version) {
            options[pk.name].push(pk.version);
        }
    }
    let hard = Prob { soft: vec![], ..p.clone() };
    let mut sol: Vec<(usize, u32)> = vec![];
    fn rec(
        u: &Universe,
        hard: &Prob,
        options: &[Vec<u32>],
        i: usize,
        sol: &mut Vec<(usize, u32)>,
    ) -> bool {
        if i == options.len() {
            return validate(u, hard, sol).is_empty();
        }
        if rec(u, hard, options, i + 1, sol) {
            return true;
        }
        for &v in &options[i] {
            sol.push((i, v));
            if rec(u, hard, options, i + 1, sol) {
                return true;
            }
            sol.pop();
        }
        false
    }
    if rec(u, &hard, &options, 0, &mut sol) { Some(sol) } else { None }
}

/// The same with pruning: a partial selection (names < upto decided) is abandoned as soon as a
/// constraint between decided names is violated or a requirement that only refers to decided
/// names is unsatisfied.
pub fn brute_force(u: &Universe, p: &Prob) -> Option<Vec<(usize, u32)>> {
    brute_force_forced(u, p, &[])
}

/// `forced`: solvables that must be part of the selection
pub fn brute_force_forced(
    u: &Universe,
    p: &Prob,
    forced: &[(usize, u32)],
) -> Option<Vec<(usize, u32)>> {
    let mut options: Vec<Vec<u32>> = vec![vec![]; u.n_names];
    let mut idx: HashMap<(usize, u32), &Pkg> = HashMap::new();
    for pk in &u.pkgs {
        if pk.unknown || u.excluded.contains(&(pk.name, pk.version)) {
            continue;
        }
        if let Some(l) = u.locked.get(&pk.name) {
            if *l != pk.version {
                continue;
            }
        }
        if !options[pk.name].contains(&pk.version) {
            options[pk.name].push(pk.version);
            idx.insert((pk.name, pk.version), pk);
        }
    }
    fn spec_sat(sel: &[Option<u32>], s: &Spec) -> bool {
        matches!(sel[s.name], Some(v) if s.lo <= v && v < s.hi)
    }
    fn cons_ok(sel: &[Option<u32>], c: &Spec) -> bool {
        match sel[c.name] {
            Some(v) => c.lo <= v && v < c.hi,
            None => true,
        }
    }
    fn req_ok(sel: &[Option<u32>], r: &[Spec], upto: usize) -> bool {
        r.iter().any(|s| s.name >= upto) || r.iter().any(|s| spec_sat(sel, s))
    }
    struct Ctx<'a> {
        p: &'a Prob,
        options: Vec<Vec<u32>>,
        idx: HashMap<(usize, u32), &'a Pkg>,
        forced_names: Vec<usize>,
    }
    fn partial_ok(c: &Ctx, sel: &[Option<u32>], upto: usize) -> bool {
        if !c.p.root_constraints.iter().all(|k| cons_ok(sel, k)) {
            return false;
        }
        if !c.p.root_reqs.iter().all(|r| req_ok(sel, r, upto)) {
            return false;
        }
        for n in 0..upto {
            if let Some(v) = sel[n] {
                let pk = c.idx[&(n, v)];
                if !pk.constrains.iter().all(|k| cons_ok(sel, k)) {
                    return false;
                }
                if !pk.deps.iter().all(|r| req_ok(sel, r, upto)) {
                    return false;
                }
            }
        }
        true
    }
    fn rec(c: &Ctx, sel: &mut Vec<Option<u32>>, i: usize) -> bool {
        if !partial_ok(c, sel, i) {
            return false;
        }
        if i == sel.len() {
            return true;
        }
        if !c.forced_names.contains(&i) && rec(c, sel, i + 1) {
            return true;
        }
        for k in 0..c.options[i].len() {
            sel[i] = Some(c.options[i][k]);
            if rec(c, sel, i + 1) {
                return true;
            }
        }
        sel[i] = None;
        false
    }
    let mut forced_names = vec![];
    for (n, v) in forced {
        if !options[*n].contains(v) {
            return None;
        }
        options[*n] = vec![*v];
        forced_names.push(*n);
    }
    let ctx = Ctx { p, options, idx, forced_names };
    let mut sel = vec![None; u.n_names];
    if rec(&ctx, &mut sel, 0) {
        let w: Vec<(usize, u32)> = sel
            .iter()
            .enumerate()
            .filter_map(|(n, v)| v.map(|v| (n, v)))
            .collect();
        let hard = Prob { soft: vec![], ..p.clone() };
        let bad = validate(u, &hard, &w);
        assert!(bad.is_empty(), "reference implementations disagree: {bad:?}");
        Some(w)
    } else {
        None
    }
}

fn bf_size(u: &Universe) -> u64 {
    let mut n = 1u64;
    for name in 0..u.n_names {
        n = n.saturating_mul(1 + u.pkgs.iter().filter(|p| p.name == name).count() as u64);
    }
    n
}

// ---------------------------------------------------------------------------
// The checks
// ---------------------------------------------------------------------------

/// Checks one outcome against the properties; `bf` caches the brute force result per problem
fn check_outcome(
    u: &Universe,
    pi: usize,
    o: &Outcome,
    label: &str,
    bf: &mut Vec<Option<Option<Vec<(usize, u32)>>>>,
) -> Option<String> {
    let p = &u.probs[pi];
    match o {
        Outcome::Ok(sol) => {
            let bad = validate(u, p, sol);
            if !bad.is_empty() {
                return Some(format!("INVALID: [{label} problem#{pi}] {bad:?} sol={sol:?}"));
            }
        }
        Outcome::Unsolvable(fails) => {
            if let Some(m) = fails.first() {
                // "KIND: details" -> "KIND: [variant] details"
                let (kind, rest) = m.split_once(':').unwrap_or((m.as_str(), ""));
                return Some(format!("{kind}: [{label} problem#{pi}]{rest}"));
            }
            if bf_size(u) <= 20_000_000 {
                if bf[pi].is_none() {
                    bf[pi] = Some(brute_force(u, p));
                }
                if let Some(Some(w)) = &bf[pi] {
                    return Some(format!(
                        "FALSE-UNSAT: [{label} problem#{pi}] brute force finds {w:?}"
                    ));
                }
            }
        }
        Outcome::Cancelled => return Some(format!("CANCELLED: [{label} problem#{pi}]")),
        Outcome::Panic(m) => return Some(format!("PANIC: {m} [{label} problem#{pi}]")),
    }
    None
}

/// mode 0/1: all variants, fresh solver; mode 2: reuse versus fresh on variants V3 and V0.
pub fn check(u: &Universe, mode: u8, tag: &str) -> Option<String> {
    let mut bf = vec![None; u.probs.len()];
    let biased = mode >= 3;
    let mode = base_mode(mode);
    if mode == 2 {
        for variant in [VARIANTS[3], VARIANTS[0], VARIANTS[2], VARIANTS[5], VARIANTS[7]] {
            let (fresh, c1) = run(u, variant, false, tag);
            let (reused, c2) = run(u, variant, true, tag);
            for (pi, o) in fresh.iter().enumerate() {
                if let Some(f) = check_outcome(u, pi, o, &format!("{} fresh", variant.label), &mut bf) {
                    return Some(f);
                }
            }
            for (pi, o) in reused.iter().enumerate() {
                if let Some(f) = check_outcome(u, pi, o, &format!("{} REUSED", variant.label), &mut bf) {
                    return Some(f);
                }
            }
            for (pi, (a, b)) in fresh.iter().zip(reused.iter()).enumerate() {
                if a.verdict() != b.verdict() {
                    return Some(format!(
                        "REUSE-MISMATCH: [{} problem#{pi}] fresh={} reused={}",
                        variant.label,
                        a.verdict(),
                        b.verdict()
                    ));
                }
            }
            if let Some(c) = c1.first().or(c2.first()) {
                return Some(format!("PROTOCOL: [{}] {c}", variant.label));
            }
        }
        return None;
    }
    let mut first: Option<(&'static str, Vec<Outcome>)> = None;
    for &variant in VARIANTS {
        let (outs, complaints) = run(u, variant, false, tag);
        // (outside P1-P5, only with HUNT_SOFTLOST) a single soft requirement that could be
        // installed on top of the returned solution is missing from it
        if std::env::var("HUNT_SOFTLOST").is_ok() && u.probs[0].soft.len() == 1 {
            if let Outcome::Ok(sol) = &outs[0] {
                let s = u.probs[0].soft[0];
                // HUNT_SOFTLOST=hint: only if the run without hints did install it
                let hint_only = std::env::var("HUNT_SOFTLOST").as_deref() == Ok("hint");
                let v0_has = match &first {
                    Some((_, o0)) => matches!(&o0[0], Outcome::Ok(s0) if s0.contains(&s)),
                    None => false,
                };
                if !sol.contains(&s)
                    && validate(u, &u.probs[0], sol).is_empty()
                    && (!hint_only || (v0_has && variant.hints != HintMode::Off && !variant.own_order))
                {
                    let mut forced = sol.clone();
                    forced.push(s);
                    if let Some(w) = brute_force_forced(u, &u.probs[0], &forced) {
                        return Some(format!(
                            "SOFT-LOST: [{}] returned {sol:?} although {w:?} is valid",
                            variant.label
                        ));
                    }
                }
            }
        }
        for (pi, o) in outs.iter().enumerate() {
            if let Some(f) = check_outcome(u, pi, o, variant.label, &mut bf) {
                return Some(f);
            }
        }
        if let Some(c) = complaints.first() {
            return Some(format!("PROTOCOL: [{}] {c}", variant.label));
        }
        match &first {
            None => {
                // the unsat-biased modes are about conflict reports: most solvable universes
                // are not presented in the other variants
                if biased
                    && outs.iter().all(|o| matches!(o, Outcome::Ok(_)))
                    && std::env::var("HUNT_ALL_VARIANTS").is_err()
                    && (u.id_seed >> 8) % 8 != 0
                {
                    SKIPPED_SOLVABLE.fetch_add(1, Relaxed);
                    return None;
                }
                first = Some((variant.label, outs))
            }
            Some((l0, o0)) => {
                for (pi, (a, b)) in o0.iter().zip(outs.iter()).enumerate() {
                    if a.verdict() != b.verdict() {
                        return Some(format!(
                            "VERDICT-MISMATCH: [problem#{pi}] {l0}={} {}={}",
                            a.verdict(),
                            variant.label,
                            b.verdict()
                        ));
                    }
                }
            }
        }
    }
    None
}

pub static SKIPPED_SOLVABLE: std::sync::atomic::AtomicU64 = std::sync::atomic::AtomicU64::new(0);

/// the failure class used for counting and shrinking
fn class_of(f: &str) -> String {
    let kind = f.split(':').next().unwrap_or("");
    if kind == "PANIC" {
        // kind + message + location (without the variant label)
        f.split(" [").next().unwrap_or(f).to_string()
    } else if kind == "RENDER-PANIC" || kind == "GRAPH-PANIC" {
        // "KIND: [label] message @ location"
        let rest = f.split_once("] ").map(|x| x.1).unwrap_or(f);
        format!("{kind}: {}", rest.lines().next().unwrap_or(""))
    } else {
        kind.to_string()
    }
}

// ---------------------------------------------------------------------------
// Generator
// ---------------------------------------------------------------------------

#[derive(Clone, Copy, Debug)]
pub struct Profile {
    pub names: (u64, u64),
    pub versions: (u64, u64),
    pub deps: (u64, u64),
    pub max_constrains: u64,
    pub root_reqs: (u64, u64),
    pub union_pct: u64,
    pub root_constraint_pct: u64,
    pub extras_pct: u64,
    pub full_range_pct: u64,
    pub unknown_pct: u64,
    pub nocand_pct: u64,
}

pub const PROFILES: &[Profile] = &[
    Profile {
        names: (3, 5),
        versions: (1, 3),
        deps: (0, 2),
        max_constrains: 1,
        root_reqs: (1, 3),
        union_pct: 12,
        root_constraint_pct: 15,
        extras_pct: 8,
        full_range_pct: 50,
        unknown_pct: 4,
        nocand_pct: 4,
    },
    Profile {
        names: (4, 7),
        versions: (1, 4),
        deps: (0, 3),
        max_constrains: 2,
        root_reqs: (1, 3),
        union_pct: 10,
        root_constraint_pct: 25,
        extras_pct: 10,
        full_range_pct: 45,
        unknown_pct: 3,
        nocand_pct: 4,
    },
    Profile {
        names: (3, 6),
        versions: (2, 4),
        deps: (1, 3),
        max_constrains: 2,
        root_reqs: (2, 3),
        union_pct: 8,
        root_constraint_pct: 10,
        extras_pct: 4,
        full_range_pct: 30,
        unknown_pct: 2,
        nocand_pct: 2,
    },
    Profile {
        names: (5, 7),
        versions: (1, 2),
        deps: (0, 3),
        max_constrains: 1,
        root_reqs: (1, 4),
        union_pct: 30,
        root_constraint_pct: 20,
        extras_pct: 15,
        full_range_pct: 60,
        unknown_pct: 8,
        nocand_pct: 5,
    },
    // search heavy: many versions, narrow ranges, few trivial reasons for unsolvability
    Profile {
        names: (5, 8),
        versions: (2, 5),
        deps: (1, 2),
        max_constrains: 2,
        root_reqs: (2, 3),
        union_pct: 10,
        root_constraint_pct: 8,
        extras_pct: 2,
        full_range_pct: 25,
        unknown_pct: 1,
        nocand_pct: 1,
    },
    Profile {
        names: (6, 10),
        versions: (3, 4),
        deps: (1, 3),
        max_constrains: 1,
        root_reqs: (1, 2),
        union_pct: 5,
        root_constraint_pct: 5,
        extras_pct: 2,
        full_range_pct: 20,
        unknown_pct: 1,
        nocand_pct: 0,
    },
    Profile {
        names: (6, 9),
        versions: (3, 5),
        deps: (1, 2),
        max_constrains: 1,
        root_reqs: (2, 3),
        union_pct: 10,
        root_constraint_pct: 5,
        extras_pct: 2,
        full_range_pct: 50,
        unknown_pct: 1,
        nocand_pct: 0,
    },
    // many versions per package (at-most-one encoding with several helper variables)
    Profile {
        names: (3, 4),
        versions: (6, 10),
        deps: (1, 2),
        max_constrains: 3,
        root_reqs: (1, 3),
        union_pct: 15,
        root_constraint_pct: 15,
        extras_pct: 4,
        full_range_pct: 35,
        unknown_pct: 2,
        nocand_pct: 0,
    },
    // big (the brute force reference is mostly skipped)
    Profile {
        names: (10, 14),
        versions: (2, 5),
        deps: (1, 3),
        max_constrains: 2,
        root_reqs: (2, 4),
        union_pct: 10,
        root_constraint_pct: 5,
        extras_pct: 2,
        full_range_pct: 35,
        unknown_pct: 1,
        nocand_pct: 0,
    },
    Profile {
        names: (4, 6),
        versions: (3, 6),
        deps: (1, 2),
        max_constrains: 3,
        root_reqs: (2, 4),
        union_pct: 15,
        root_constraint_pct: 10,
        extras_pct: 3,
        full_range_pct: 35,
        unknown_pct: 1,
        nocand_pct: 1,
    },
];

thread_local! {
    /// percentage of empty version ranges produced by `gen_spec`
    static EMPTY_PCT: std::cell::Cell<u64> = const { std::cell::Cell::new(2) };
}

/// soft requirements / reuse semantics of a mode
fn base_mode(mode: u8) -> u8 {
    match mode {
        3 => 0,
        4 => 1,
        5 => 2,
        m => m,
    }
}

/// the profile of the unsat-biased modes: everything that makes problems unsolvable is likely
fn random_profile(r: &mut Rng) -> Profile {
    if r.chance(55) {
        // search heavy flavour: no trivial reasons, many versions, narrow ranges, so that the
        // final conflict is reached through learnt clauses and restarts
        let lo_names = r.range(3, 9);
        return Profile {
            names: (lo_names, lo_names + r.range(0, 3)),
            versions: (2, r.range(3, if lo_names > 6 { 4 } else { 6 })),
            deps: (1, r.range(2, 3)),
            max_constrains: r.range(0, 3),
            root_reqs: (r.range(1, 2), r.range(2, 4)),
            union_pct: r.range(0, 25),
            root_constraint_pct: r.range(0, 20),
            extras_pct: r.range(0, 6),
            full_range_pct: r.range(5, 45),
            unknown_pct: r.range(0, 2),
            nocand_pct: 0,
        };
    }
    let lo_names = r.range(3, 9);
    let big = r.chance(50);
    Profile {
        names: (lo_names, lo_names + r.range(0, 3)),
        versions: (1, r.range(1, if lo_names > 7 { 3 } else { 5 })),
        deps: (r.range(0, 1), r.range(1, 3)),
        max_constrains: r.range(0, 3),
        root_reqs: (1, r.range(1, 4)),
        union_pct: r.range(0, 35),
        root_constraint_pct: r.range(0, 50),
        extras_pct: if big { r.range(10, 40) } else { r.range(0, 12) },
        full_range_pct: r.range(10, 70),
        unknown_pct: if r.chance(50) { r.range(0, 20) } else { 0 },
        nocand_pct: if r.chance(50) { r.range(0, 25) } else { 0 },
    }
}

fn gen_spec(r: &mut Rng, nvs: &[u32], full_pct: u64, own: Option<usize>) -> Spec {
    let n_names = nvs.len();
    let mut name = r.below(n_names as u64) as usize;
    // self references only occasionally
    if Some(name) == own && !r.chance(10) {
        name = (name + 1) % n_names;
    }
    // mostly ranges within the existing versions of the package
    let maxv = if r.chance(90) { nvs[name].max(1) } else { nvs[name] + 1 };
    if r.chance(full_pct) {
        Spec { name, lo: 0, hi: 100 }
    } else if r.chance(EMPTY_PCT.with(|e| e.get())) {
        let lo = r.range(1, maxv as u64) as u32;
        Spec { name, lo, hi: lo } // empty range
    } else {
        let lo = r.range(1, maxv as u64) as u32;
        let hi = r.range(lo as u64 + 1, maxv as u64 + 1) as u32;
        Spec { name, lo, hi }
    }
}

fn gen_prob(r: &mut Rng, u: &Universe, p: &Profile, nvs: &[u32], with_soft: bool) -> Prob {
    let mut pr = Prob::default();
    let n_reqs = if r.chance(3) { 0 } else { r.range(p.root_reqs.0, p.root_reqs.1) };
    for _ in 0..n_reqs {
        let mut un = vec![gen_spec(r, nvs, p.full_range_pct, None)];
        if r.chance(p.union_pct) {
            un.push(gen_spec(r, nvs, p.full_range_pct, None));
            if r.chance(25) {
                un.push(gen_spec(r, nvs, p.full_range_pct, None));
            }
        }
        pr.root_reqs.push(un);
    }
    if !pr.root_reqs.is_empty() && r.chance(3) {
        pr.root_reqs.push(pr.root_reqs[0].clone());
    }
    if r.chance(p.root_constraint_pct) {
        for _ in 0..r.range(1, 2) {
            pr.root_constraints
                .push(gen_spec(r, nvs, 0, None));
        }
    }
    if with_soft && !u.pkgs.is_empty() {
        let n_soft = if r.chance(20) { r.range(4, 6) } else { r.range(1, 3) };
        for _ in 0..n_soft {
            let pk = &u.pkgs[r.below(u.pkgs.len() as u64) as usize];
            let s = (pk.name, pk.version);
            if !pr.soft.contains(&s) || r.chance(20) {
                pr.soft.push(s);
            }
        }
    }
    pr
}

pub fn gen_universe(seed: u64, mode: u8) -> Universe {
    let mut r = Rng::new(seed ^ ((mode as u64) << 56));
    let biased = mode >= 3;
    let mode = base_mode(mode);
    let p = match std::env::var("HUNT_PROFILE").ok().and_then(|s| s.parse::<usize>().ok()) {
        Some(i) => PROFILES[i],
        None if biased => random_profile(&mut r),
        None => PROFILES[(seed % PROFILES.len() as u64) as usize],
    };
    EMPTY_PCT.with(|e| e.set(if biased && p.nocand_pct > 0 { r.range(0, 15) } else { r.range(0, 2) }));
    let n_names = r.range(p.names.0, p.names.1) as usize;
    let mut u = Universe {
        n_names,
        ..Default::default()
    };
    // number of versions per name; occasionally a name without any candidates
    let nvs: Vec<u32> = (0..n_names)
        .map(|_| if r.chance(p.nocand_pct) { 0 } else { r.range(p.versions.0, p.versions.1) as u32 })
        .collect();
    for n in 0..n_names {
        let nv = nvs[n];
        if nv == 0 {
            continue;
        }
        for v in 1..=nv {
            let mut pk = Pkg {
                name: n,
                version: v,
                ..Default::default()
            };
            for _ in 0..r.range(p.deps.0, p.deps.1) {
                let mut un = vec![gen_spec(&mut r, &nvs, p.full_range_pct, Some(n))];
                if r.chance(p.union_pct) {
                    if r.chance(10) {
                        un.push(un[0].clone());
                    } else {
                        un.push(gen_spec(&mut r, &nvs, p.full_range_pct, Some(n)));
                        if r.chance(25) {
                            un.push(gen_spec(&mut r, &nvs, p.full_range_pct, Some(n)));
                        }
                    }
                }
                pk.deps.push(un);
            }
            if !pk.deps.is_empty() && r.chance(3) {
                pk.deps.push(pk.deps[0].clone());
            }
            for _ in 0..r.range(0, p.max_constrains) {
                pk.constrains
                    .push(gen_spec(&mut r, &nvs, 0, Some(n)));
            }
            pk.unknown = r.chance(p.unknown_pct);
            u.pkgs.push(pk);
        }
        let versions: Vec<u32> = (1..=nv).collect();
        let pick = |r: &mut Rng| versions[r.below(versions.len() as u64) as usize];
        if r.chance(p.extras_pct) {
            u.favored.insert(n, pick(&mut r));
        }
        if r.chance(p.extras_pct) {
            // occasionally locked to a version that is not among the candidates
            let v = if r.chance(10) { 99 } else { pick(&mut r) };
            u.locked.insert(n, v);
        }
        for &v in &versions {
            if r.chance(p.extras_pct / 2) {
                u.excluded.insert((n, v));
            }
        }
        if r.chance(1) {
            u.excluded.insert((n, 98));
        }
        let h = match r.below(10) {
            0..=3 => Hint::None,
            4..=6 => Hint::All,
            _ => {
                let mut vs: Vec<u32> = versions.iter().copied().filter(|_| r.chance(50)).collect();
                if r.chance(3) {
                    vs.push(97);
                }
                Hint::Some(vs)
            }
        };
        if h != Hint::None {
            u.hints.insert(n, h);
        }
    }
    // structured extras of the unsat-biased modes
    let mut chain_root: Option<usize> = None;
    if biased && !u.pkgs.is_empty() {
        let spec_for = |r: &mut Rng, name: usize| -> Spec {
            if nvs[name] == 0 || r.chance(60) {
                Spec { name, lo: 0, hi: 100 }
            } else {
                let lo = r.range(1, nvs[name] as u64) as u32;
                Spec { name, lo, hi: r.range(lo as u64 + 1, nvs[name] as u64 + 1) as u32 }
            }
        };
        // a deep chain p0 -> p1 -> ... (every version of a package depends on the next
        // package), possibly closed to a cycle
        if r.chance(30) {
            let len = r.range(2, n_names as u64) as usize;
            let cyclic = r.chance(40);
            for i in 0..len {
                let next = if i + 1 < len {
                    i + 1
                } else if cyclic {
                    0
                } else {
                    break;
                };
                let per_version = r.chance(50);
                let shared = spec_for(&mut r, next);
                for k in 0..u.pkgs.len() {
                    if u.pkgs[k].name == i {
                        let s = if per_version { spec_for(&mut r, next) } else { shared.clone() };
                        u.pkgs[k].deps.push(vec![s]);
                    }
                }
            }
            chain_root = Some(0);
        }
        // contradictory constrains: two packages that pin a third one to disjoint ranges
        if r.chance(30) {
            let victim = r.below(n_names as u64) as usize;
            let nv = nvs[victim].max(1);
            let cut = r.range(1, nv as u64) as u32;
            let a = r.below(u.pkgs.len() as u64) as usize;
            let b = r.below(u.pkgs.len() as u64) as usize;
            u.pkgs[a].constrains.push(Spec { name: victim, lo: 0, hi: cut });
            u.pkgs[b].constrains.push(Spec { name: victim, lo: cut, hi: 100 });
            if r.chance(50) {
                u.pkgs[a].deps.push(vec![Spec { name: victim, lo: 0, hi: 100 }]);
            }
        }
        // a diamond: x requires y and z, which require disjoint ranges of w
        if r.chance(20) && n_names >= 4 {
            let mut names: Vec<usize> = (0..n_names).collect();
            r.shuffle(&mut names);
            let (x, y, z, w) = (names[0], names[1], names[2], names[3]);
            let cut = r.range(1, nvs[w].max(1) as u64) as u32;
            for k in 0..u.pkgs.len() {
                let n = u.pkgs[k].name;
                if n == x {
                    u.pkgs[k].deps.push(vec![Spec { name: y, lo: 0, hi: 100 }]);
                    u.pkgs[k].deps.push(vec![Spec { name: z, lo: 0, hi: 100 }]);
                } else if n == y && r.chance(80) {
                    u.pkgs[k].deps.push(vec![Spec { name: w, lo: 0, hi: cut + 1 }]);
                } else if n == z && r.chance(80) {
                    u.pkgs[k].deps.push(vec![Spec { name: w, lo: cut + 1, hi: 100 }]);
                }
            }
            if chain_root.is_none() {
                chain_root = Some(x);
            }
        }
    }
    u.id_seed = r.next() | 1;
    u.cand_seed = r.next() | 1;
    u.sort_mode = r.below(4) as u8;
    let n_probs = if mode == 2 { r.range(2, 3) } else { 1 };
    for _ in 0..n_probs {
        let with_soft = match mode {
            0 => false,
            1 => true,
            _ => r.chance(40),
        };
        let mut pr = gen_prob(&mut r, &u, &p, &nvs, with_soft);
        if let Some(c) = chain_root {
            if r.chance(80) {
                pr.root_reqs.insert(0, vec![Spec { name: c, lo: 0, hi: 100 }]);
            }
        }
        u.probs.push(pr);
    }
    // reuse scenario: sometimes repeat the very same problem
    if mode == 2 && r.chance(25) {
        let p0 = u.probs[0].clone();
        u.probs.push(p0);
    }
    u
}

// ---------------------------------------------------------------------------
// Search
// ---------------------------------------------------------------------------

fn env_u64(name: &str, default: u64) -> u64 {
    std::env::var(name)
        .ok()
        .and_then(|s| s.parse().ok())
        .unwrap_or(default)
}

fn print_counters(cases: u64) {
    use counters::*;
    println!(
        "COUNTERS universes={cases} skipped_solvable={} reports={} edges={} req_groups={} p2_runs={} p2_edge_only_sat={} renders={} | with forbid={} constrains={} lock={} excluded={} unresolved={} union={} merged={} cycle={} | max nodes={} edges={} msg={}B msg_ratio_x1000={} dot={}B",
        SKIPPED_SOLVABLE.load(Relaxed),
        REPORTS.load(Relaxed),
        EDGES.load(Relaxed),
        REQ_GROUPS.load(Relaxed),
        P2_RUNS.load(Relaxed),
        P2_EDGE_ONLY_SAT.load(Relaxed),
        RENDERS.load(Relaxed),
        WITH_FORBID.load(Relaxed),
        WITH_CONSTRAINS.load(Relaxed),
        WITH_LOCK.load(Relaxed),
        WITH_EXCLUDED.load(Relaxed),
        WITH_UNRESOLVED.load(Relaxed),
        WITH_UNION.load(Relaxed),
        WITH_MERGED.load(Relaxed),
        WITH_CYCLE.load(Relaxed),
        MAX_NODES.load(Relaxed),
        MAX_EDGES.load(Relaxed),
        MAX_MSG.load(Relaxed),
        MAX_MSG_RATIO.load(Relaxed),
        MAX_DOT.load(Relaxed),
    );
}

#[test]
fn random_search() {
    let cases = env_u64("HUNT_CASES", 2000);
    let seed0 = env_u64("HUNT_SEED", 1);
    let mode = env_u64("HUNT_MODE", 0) as u8;
    let max_report = env_u64("HUNT_REPORT", 5) as usize;
    start_watchdog();
    println!("debug_assertions = {}", cfg!(debug_assertions));
    let mut kinds: BTreeMap<String, (u64, u64, usize)> = BTreeMap::new();
    let mut reported: BTreeMap<String, usize> = BTreeMap::new();
    let mut n_ok = 0u64;
    let mut n_unsat = 0u64;
    let t0 = Instant::now();
    for seed in seed0..seed0 + cases {
        let u = gen_universe(seed, mode);
        if std::env::var("HUNT_STATS").is_ok() {
            let (o, _) = run(&u, VARIANTS[0], false, "stats");
            match o[0] {
                Outcome::Ok(_) => n_ok += 1,
                Outcome::Unsolvable(_) => n_unsat += 1,
                _ => {}
            }
        }
        if let Some(f) = check(&u, mode, &format!("mode={mode} seed={seed}")) {
            let key = class_of(&f);
            let size = u.pkgs.len();
            let e = kinds.entry(key.clone()).or_insert((0, seed, size));
            e.0 += 1;
            if size < e.2 {
                e.1 = seed;
                e.2 = size;
            }
            let rep = reported.entry(key).or_insert(0);
            if *rep < max_report {
                *rep += 1;
                println!("=== FAILURE mode={mode} seed={seed}: {f}\n{}", u.dump());
            }
        }
        if (seed - seed0 + 1) % 50_000 == 0 {
            println!(
                "... {} cases, {} failure classes, {:.0}s",
                seed - seed0 + 1,
                kinds.len(),
                t0.elapsed().as_secs_f64()
            );
        }
    }
    println!(
        "mode={mode} seeds {seed0}..{} done in {:.0}s (baseline ok={n_ok} unsat={n_unsat})",
        seed0 + cases,
        t0.elapsed().as_secs_f64()
    );
    for (k, (n, seed, size)) in &kinds {
        println!("{n:6} x {k}   (smallest: seed {seed}, {size} solvables)");
    }
    print_counters(cases);
    if std::env::var("HUNT_ASSERT").is_ok() {
        assert!(kinds.is_empty());
    }
}

// ---------------------------------------------------------------------------
// Shrinker (greedy delta debugging on the universe description)
// ---------------------------------------------------------------------------

fn classify(u: &Universe, mode: u8) -> Option<String> {
    check(u, mode, "shrink").map(|f| class_of(&f))
}

fn shrink_candidates(u: &Universe) -> Vec<Universe> {
    let mut out = vec![];
    if u.probs.len() > 1 {
        for i in 0..u.probs.len() {
            let mut c = u.clone();
            c.probs.remove(i);
            out.push(c);
        }
    }
    for i in 0..u.pkgs.len() {
        let mut c = u.clone();
        let p = c.pkgs.remove(i);
        for pr in &mut c.probs {
            pr.soft.retain(|s| *s != (p.name, p.version));
        }
        out.push(c);
    }
    for pi in 0..u.probs.len() {
        let p = &u.probs[pi];
        for i in 0..p.soft.len() {
            let mut c = u.clone();
            c.probs[pi].soft.remove(i);
            out.push(c);
        }
        for i in 0..p.root_reqs.len() {
            let mut c = u.clone();
            c.probs[pi].root_reqs.remove(i);
            out.push(c);
            if p.root_reqs[i].len() > 1 {
                for j in 0..p.root_reqs[i].len() {
                    let mut c = u.clone();
                    c.probs[pi].root_reqs[i].remove(j);
                    out.push(c);
                }
            }
        }
        for i in 0..p.root_constraints.len() {
            let mut c = u.clone();
            c.probs[pi].root_constraints.remove(i);
            out.push(c);
        }
    }
    for i in 0..u.pkgs.len() {
        for j in 0..u.pkgs[i].deps.len() {
            let mut c = u.clone();
            c.pkgs[i].deps.remove(j);
            out.push(c);
            if u.pkgs[i].deps[j].len() > 1 {
                for k in 0..u.pkgs[i].deps[j].len() {
                    let mut c = u.clone();
                    c.pkgs[i].deps[j].remove(k);
                    out.push(c);
                }
            }
        }
        for j in 0..u.pkgs[i].constrains.len() {
            let mut c = u.clone();
            c.pkgs[i].constrains.remove(j);
            out.push(c);
        }
        if u.pkgs[i].unknown {
            let mut c = u.clone();
            c.pkgs[i].unknown = false;
            out.push(c);
        }
    }
    for k in u.favored.keys() {
        let mut c = u.clone();
        c.favored.remove(k);
        out.push(c);
    }
    for k in u.locked.keys() {
        let mut c = u.clone();
        c.locked.remove(k);
        out.push(c);
    }
    for k in &u.excluded {
        let mut c = u.clone();
        c.excluded.remove(k);
        out.push(c);
    }
    for (k, h) in &u.hints {
        let mut c = u.clone();
        c.hints.remove(k);
        out.push(c);
        if let Hint::Some(vs) = h {
            for i in 0..vs.len() {
                let mut c = u.clone();
                let mut vs = vs.clone();
                vs.remove(i);
                c.hints.insert(*k, Hint::Some(vs));
                out.push(c);
            }
        }
    }
    if u.id_seed != 0 {
        let mut c = u.clone();
        c.id_seed = 0;
        out.push(c);
    }
    if u.cand_seed != 0 {
        let mut c = u.clone();
        c.cand_seed = 0;
        out.push(c);
    }
    if u.sort_mode != 0 {
        let mut c = u.clone();
        c.sort_mode = 0;
        out.push(c);
    }
    // widen ranges to "any"
    for i in 0..u.pkgs.len() {
        for j in 0..u.pkgs[i].deps.len() {
            for k in 0..u.pkgs[i].deps[j].len() {
                let s = &u.pkgs[i].deps[j][k];
                if (s.lo, s.hi) != (0, 100) {
                    let mut c = u.clone();
                    c.pkgs[i].deps[j][k].lo = 0;
                    c.pkgs[i].deps[j][k].hi = 100;
                    out.push(c);
                }
            }
        }
    }
    for pi in 0..u.probs.len() {
        for i in 0..u.probs[pi].root_reqs.len() {
            for k in 0..u.probs[pi].root_reqs[i].len() {
                let s = &u.probs[pi].root_reqs[i][k];
                if (s.lo, s.hi) != (0, 100) {
                    let mut c = u.clone();
                    c.probs[pi].root_reqs[i][k].lo = 0;
                    c.probs[pi].root_reqs[i][k].hi = 100;
                    out.push(c);
                }
            }
        }
    }
    out
}

pub fn shrink(mut u: Universe, mode: u8) -> Universe {
    let class = classify(&u, mode).expect("seed does not fail");
    loop {
        let mut progressed = false;
        for c in shrink_candidates(&u) {
            if classify(&c, mode).as_deref() == Some(class.as_str()) {
                u = c;
                progressed = true;
                break;
            }
        }
        if !progressed {
            return u;
        }
    }
}

#[test]
fn shrink_seed() {
    let Some(seed) = std::env::var("HUNT_SHRINK")
        .ok()
        .and_then(|s| s.parse::<u64>().ok())
    else {
        return;
    };
    let mode = env_u64("HUNT_MODE", 0) as u8;
    start_watchdog();
    let u = gen_universe(seed, mode);
    println!("original ({} solvables): {:?}\n{}", u.pkgs.len(), check(&u, mode, "orig"), u.dump());
    let s = shrink(u, mode);
    println!(
        "shrunk ({} solvables): {:?}\n{}",
        s.pkgs.len(),
        check(&s, mode, "shrunk"),
        s.dump()
    );
}

// ---------------------------------------------------------------------------
// Parsing the dump format back (for hand-built scenarios / minimisation)
// ---------------------------------------------------------------------------

fn parse_name(s: &str) -> usize {
    s.trim().trim_start_matches('p').parse().unwrap()
}
fn parse_spec(s: &str) -> Spec {
    let s = s.trim();
    let mut it = s.split_whitespace();
    let name = parse_name(it.next().unwrap());
    match it.next() {
        None => Spec { name, lo: 0, hi: 100 },
        Some(r) => {
            if let Some((lo, hi)) = r.split_once("..") {
                Spec { name, lo: lo.parse().unwrap(), hi: hi.parse().unwrap() }
            } else {
                let v: u32 = r.parse().unwrap();
                Spec { name, lo: v, hi: v + 1 }
            }
        }
    }
}
fn parse_union(s: &str) -> Vec<Spec> {
    s.split('|').map(parse_spec).collect()
}
/// the quoted strings inside the first [...] following `key`
fn section<'a>(line: &'a str, key: &str) -> Vec<&'a str> {
    let Some(i) = line.find(key) else { return vec![] };
    let rest = &line[i + key.len()..];
    let a = rest.find('[').unwrap();
    let b = rest.find(']').unwrap();
    let inner = &rest[a + 1..b];
    if inner.contains('"') {
        inner.split('"').skip(1).step_by(2).collect()
    } else {
        inner.split(',').map(str::trim).filter(|s| !s.is_empty()).collect()
    }
}
fn parse_nv(s: &str) -> (usize, u32) {
    let (n, v) = s.trim().split_once('=').unwrap();
    (parse_name(n), v.parse().unwrap())
}

pub fn parse_universe(text: &str) -> Universe {
    let mut u = Universe::default();
    let mut max_name = 0;
    for line in text.lines() {
        let line = line.trim();
        if line.is_empty() || line.starts_with('#') {
            continue;
        }
        let words: Vec<&str> = line.split_whitespace().collect();
        if line.starts_with("PROBLEM") {
            u.probs.push(Prob::default());
        } else if line.starts_with("ROOT requires") {
            if u.probs.is_empty() {
                u.probs.push(Prob::default());
            }
            u.probs.last_mut().unwrap().root_reqs =
                section(line, "requires").into_iter().map(parse_union).collect();
        } else if line.starts_with("ROOT constrains") {
            if u.probs.is_empty() {
                u.probs.push(Prob::default());
            }
            u.probs.last_mut().unwrap().root_constraints =
                section(line, "constrains").into_iter().map(parse_spec).collect();
        } else if line.starts_with("SOFT") {
            if u.probs.is_empty() {
                u.probs.push(Prob::default());
            }
            u.probs.last_mut().unwrap().soft =
                section(line, "SOFT").into_iter().map(parse_nv).collect();
        } else if line.starts_with("HINT") {
            let n = parse_name(words[1]);
            max_name = max_name.max(n);
            let h = match words[2] {
                "all" => Hint::All,
                "some" => Hint::Some(
                    words
                        .get(3)
                        .map(|s| s.split(',').filter(|x| !x.is_empty()).map(|x| x.parse().unwrap()).collect())
                        .unwrap_or_default(),
                ),
                _ => Hint::None,
            };
            u.hints.insert(n, h);
        } else if line.starts_with("ORDER") {
            for w in &words[1..] {
                let (k, v) = w.split_once('=').unwrap();
                match k {
                    "id_seed" => u.id_seed = v.parse().unwrap(),
                    "cand_seed" => u.cand_seed = v.parse().unwrap(),
                    "sort" => u.sort_mode = v.parse().unwrap(),
                    _ => panic!("unknown ORDER key {k}"),
                }
            }
        } else if line.starts_with("LOCK") {
            let (n, v) = parse_nv(words[1]);
            u.locked.insert(n, v);
        } else if line.starts_with("FAVOR") {
            let (n, v) = parse_nv(words[1]);
            u.favored.insert(n, v);
        } else if line.starts_with("EXCLUDE") {
            let (n, v) = parse_nv(words[1]);
            u.excluded.insert((n, v));
        } else {
            let (n, v) = parse_nv(words[0]);
            u.pkgs.push(Pkg {
                name: n,
                version: v,
                deps: section(line, "requires").into_iter().map(parse_union).collect(),
                constrains: section(line, "constrains").into_iter().map(parse_spec).collect(),
                unknown: line.ends_with("UNKNOWN"),
            });
        }
    }
    for p in &u.pkgs {
        max_name = max_name.max(p.name);
        for s in p.deps.iter().flatten().chain(p.constrains.iter()) {
            max_name = max_name.max(s.name);
        }
    }
    for pr in &u.probs {
        for s in pr.root_reqs.iter().flatten().chain(pr.root_constraints.iter()) {
            max_name = max_name.max(s.name);
        }
        for (n, _) in &pr.soft {
            max_name = max_name.max(*n);
        }
    }
    u.n_names = max_name + 1;
    u
}

/// HUNT_FILE=<path of a universe in dump format>, HUNT_MODE: run the check, print the outcomes
/// of every variant; HUNT_TRACE=<variant index>: with tracing output for that variant;
/// HUNT_SHRINK_FILE=1: shrink.
#[test]
#[tracing_test::traced_test]
fn run_file() {
    let Ok(path) = std::env::var("HUNT_FILE") else {
        return;
    };
    let mode = env_u64("HUNT_MODE", 0) as u8;
    start_watchdog();
    let u = parse_universe(&std::fs::read_to_string(path).unwrap());
    println!("{}", u.dump());
    if let Ok(v) = std::env::var("HUNT_TRACE") {
        let v: usize = v.parse().unwrap();
        println!("################ TRACE {} ################", VARIANTS[v].label);
        let (o, _) = run(&u, VARIANTS[v], mode == 2, "trace");
        println!("{o:?}");
        return;
    }
    for &variant in VARIANTS {
        let (o, c) = run(&u, variant, false, "file");
        println!("{} fresh : {o:?} {c:?}", variant.label);
        if mode == 2 {
            let (o, c) = run(&u, variant, true, "file");
            println!("{} REUSED: {o:?} {c:?}", variant.label);
        }
    }
    for (i, p) in u.probs.iter().enumerate() {
        println!("brute force problem#{i}: {:?}", brute_force(&u, p));
    }
    println!("check: {:?}", check(&u, mode, "file"));
    if std::env::var("HUNT_SHRINK_FILE").is_ok() {
        let s = shrink(u, mode);
        println!("shrunk:\n{}", s.dump());
    }
}

/// self test of the DPLL used for P2 against exhaustive enumeration, and of `mentions`
#[test]
fn selftest_dpll() {
    let mut r = Rng::new(4711);
    let (mut n_sat, mut n_unsat) = (0, 0);
    for _ in 0..20000 {
        let nvars = r.range(1, 9) as usize;
        let nclauses = r.range(1, 30) as usize;
        let clauses: Vec<Vec<i32>> = (0..nclauses)
            .map(|_| {
                (0..r.range(1, 3))
                    .map(|_| {
                        let v = r.range(1, nvars as u64) as i32;
                        if r.chance(50) { v } else { -v }
                    })
                    .collect()
            })
            .collect();
        let holds = |m: &dyn Fn(usize) -> bool| {
            clauses
                .iter()
                .all(|c| c.iter().any(|&l| m((l.unsigned_abs() - 1) as usize) == (l > 0)))
        };
        let exhaustive = (0..1u32 << nvars).any(|bits| holds(&|v| bits >> v & 1 == 1));
        match dpll(nvars, &clauses) {
            Some(m) => {
                assert!(exhaustive);
                assert!(holds(&|v| m[v]), "model does not satisfy the clauses");
                n_sat += 1;
            }
            None => {
                assert!(!exhaustive, "dpll says unsat, enumeration finds a model: {clauses:?}");
                n_unsat += 1;
            }
        }
    }
    assert!(n_sat > 2000 && n_unsat > 2000, "{n_sat} {n_unsat}");
    let (names, solvables) = mentions("└─ p2 p2=1 | p2=13 would require p10 0..100, options packages p3");
    assert_eq!(names.into_iter().collect::<Vec<_>>(), vec![2, 3, 10]);
    assert_eq!(solvables.into_iter().collect::<Vec<_>>(), vec![(2, 1), (2, 13)]);
}

/// self test of the checker and the brute force reference
#[test]
fn selftest_reference() {
    let u = parse_universe(
        r#"
        p0=1  requires ["p1 0..100"]  constrains []
        p0=2  requires ["p1 2..3"]  constrains []
        p1=1  requires []  constrains []
        p1=2  requires []  constrains []  UNKNOWN
        LOCK p1=1
        PROBLEM
        ROOT requires ["p0 0..100"]
        ROOT constrains []
        SOFT []
        "#,
    );
    let w = brute_force(&u, &u.probs[0]).unwrap();
    assert_eq!(w, vec![(0, 1), (1, 1)]);
    assert!(validate(&u, &u.probs[0], &[(0, 2), (1, 2)]).len() == 2);
    assert!(validate(&u, &u.probs[0], &[(0, 1)]).len() == 1);
    let mut u2 = u.clone();
    u2.probs[0].root_reqs = vec![vec![Spec { name: 0, lo: 2, hi: 3 }]];
    assert!(brute_force(&u2, &u2.probs[0]).is_none());
    // dump / parse round trip
    let g = gen_universe(77, 2);
    let g2 = parse_universe(&g.dump());
    assert_eq!(g.dump(), g2.dump());
    assert!(check(&u, 0, "selftest").is_none());
    assert!(check(&u2, 0, "selftest").is_none());
    // the two reference implementations agree
    let (mut sat, mut unsat) = (0, 0);
    for seed in 1..4000 {
        let g = gen_universe(seed, 0);
        if bf_size(&g) > 3000 {
            continue;
        }
        let a = brute_force(&g, &g.probs[0]).is_some();
        let b = brute_force_slow(&g, &g.probs[0]).is_some();
        assert_eq!(a, b, "seed {seed}");
        if a { sat += 1 } else { unsat += 1 }
    }
    assert!(sat > 200 && unsat > 200, "{sat} {unsat}");
}

// ---------------------------------------------------------------------------
// Generator statistics: how much of the CDCL machinery do the generated cases exercise?
// (counts the solver's own debug events through a minimal tracing subscriber)
// ---------------------------------------------------------------------------

mod stats {
    use std::sync::atomic::{AtomicU64, Ordering};
    use tracing::{Event, Level, Metadata, Subscriber, field::Field, field::Visit, span};

    pub static LEARNT: AtomicU64 = AtomicU64::new(0);
    pub static RESTART: AtomicU64 = AtomicU64::new(0);
    pub static DECISIONS: AtomicU64 = AtomicU64::new(0);

    pub struct Counter;
    struct V;
    impl Visit for V {
        fn record_debug(&mut self, field: &Field, value: &dyn std::fmt::Debug) {
            if field.name() == "message" {
                let s = format!("{value:?}");
                if s.contains("Learnt disjunction") {
                    LEARNT.fetch_add(1, Ordering::Relaxed);
                } else if s.contains("invalidates the partial solution") {
                    RESTART.fetch_add(1, Ordering::Relaxed);
                } else if s.contains("╒══ Install") {
                    DECISIONS.fetch_add(1, Ordering::Relaxed);
                }
            }
        }
    }
    impl Subscriber for Counter {
        fn enabled(&self, m: &Metadata<'_>) -> bool {
            *m.level() <= Level::DEBUG
        }
        fn new_span(&self, _: &span::Attributes<'_>) -> span::Id {
            span::Id::from_u64(1)
        }
        fn record(&self, _: &span::Id, _: &span::Record<'_>) {}
        fn record_follows_from(&self, _: &span::Id, _: &span::Id) {}
        fn event(&self, e: &Event<'_>) {
            e.record(&mut V);
        }
        fn enter(&self, _: &span::Id) {}
        fn exit(&self, _: &span::Id) {}
    }
}

/// HUNT_GENSTATS=1: histogram of learnt clauses / restarts / decisions per solve (variant V1)
#[test]
fn generator_stats() {
    if std::env::var("HUNT_GENSTATS").is_err() {
        return;
    }
    use std::sync::atomic::Ordering;
    let cases = env_u64("HUNT_CASES", 2000);
    let seed0 = env_u64("HUNT_SEED", 1);
    let mode = env_u64("HUNT_MODE", 0) as u8;
    tracing::subscriber::set_global_default(stats::Counter).unwrap();
    let mut hist_learnt = BTreeMap::<u64, u64>::new();
    let mut hist_restart = BTreeMap::<u64, u64>::new();
    let mut hist_dec = BTreeMap::<u64, u64>::new();
    let (mut ok, mut unsat) = (0, 0);
    for seed in seed0..seed0 + cases {
        let u = gen_universe(seed, mode);
        stats::LEARNT.store(0, Ordering::Relaxed);
        stats::RESTART.store(0, Ordering::Relaxed);
        stats::DECISIONS.store(0, Ordering::Relaxed);
        let (o, _) = run(&u, VARIANTS[1], mode == 2, "stats");
        match o[0] {
            Outcome::Ok(_) => ok += 1,
            Outcome::Unsolvable(_) => unsat += 1,
            _ => {}
        }
        let bucket = |x: u64| match x {
            0..=3 => x,
            4..=7 => 4,
            8..=15 => 8,
            _ => 16,
        };
        if !matches!(o[0], Outcome::Unsolvable(_)) {
            // only the searches that end in a conflict report are of interest here
            continue;
        }
        *hist_learnt.entry(bucket(stats::LEARNT.load(Ordering::Relaxed))).or_default() += 1;
        *hist_restart.entry(bucket(stats::RESTART.load(Ordering::Relaxed))).or_default() += 1;
        *hist_dec.entry(bucket(stats::DECISIONS.load(Ordering::Relaxed))).or_default() += 1;
    }
    println!("mode={mode} cases={cases} ok={ok} unsat={unsat}");
    println!("learnt clauses per case : {hist_learnt:?}");
    println!("restarts per case       : {hist_restart:?}");
    println!("decisions per case      : {hist_dec:?}");
}

// ---------------------------------------------------------------------------
// Mutation based search around universes that exposed defects before (D9, D10, ...)
// ---------------------------------------------------------------------------

const CORPUS: &[&str] = &[
    // D9 family (conflict analysis back-jumping below the level a soft run started at)
    r#"
    p0=1  requires ["p1"]  constrains []
    p1=1  requires ["p3"]  constrains ["p3 5..6"]
    p2=1  requires []  constrains []
    p2=2  requires []  constrains []
    p3=1  requires []  constrains []
    ROOT requires ["p2 | p3", "p3 | p2"]
    SOFT [p0=1]
    "#,
    r#"
    p0=1  requires ["p1"]  constrains []
    p1=1  requires ["p3"]  constrains ["p3 5..6"]
    p2=1  requires []  constrains []
    p2=2  requires []  constrains []
    p3=1  requires ["p5"]  constrains []
    ROOT requires ["p2", "p3 | p2"]
    SOFT [p0=1]
    "#,
    r#"
    p0=1  requires ["p1"]  constrains []
    p1=1  requires ["p4"]  constrains []
    p4=1  requires []  constrains ["p2 1..2"]
    p4=2  requires []  constrains ["p2 1..2"]
    p2=1  requires []  constrains []
    p2=2  requires []  constrains []
    p3=1  requires []  constrains []
    p3=2  requires []  constrains []
    ROOT requires ["p2", "p3"]
    SOFT [p0=1]
    "#,
    r#"
    p6=1  requires []  constrains []
    p0=1  requires ["p1"]  constrains []
    p1=1  requires ["p3"]  constrains ["p3 5..6"]
    p2=1  requires []  constrains []
    p2=2  requires []  constrains []
    p3=1  requires []  constrains []
    ROOT requires ["p2", "p3 | p2"]
    SOFT [p6=1, p0=1]
    "#,
    r#"
    p1=1  requires []  constrains []
    p1=2  requires []  constrains []
    p1=3  requires []  constrains []
    p3=1  requires ["p9 0..100", "p1 3..4"]  constrains []
    p5=1  requires []  constrains []
    p5=2  requires ["p8 0..100"]  constrains ["p8 3..4"]
    p7=1  requires []  constrains []
    p7=2  requires []  constrains []
    p8=2  requires []  constrains []
    p8=3  requires []  constrains ["p1 2..3"]
    p9=2  requires []  constrains []
    p9=3  requires ["p7 1..2"]  constrains []
    ROOT requires ["p7 0..100", "p1 0..100", "p5 0..100"]
    SOFT [p3=1]
    "#,
    r#"
    p0=2  requires ["p2 0..100"]  constrains []
    p2=2  requires ["p6 0..100"]  constrains ["p6 1..2"]
    p4=2  requires []  constrains []
    p4=3  requires []  constrains []
    p6=2  requires ["p5 0..100"]  constrains []
    ROOT requires ["p4 0..100", "p6 0..100 | p4 0..100"]
    SOFT [p0=2]
    "#,
    // soft requirement lost (back-jump to the starting level)
    r#"
    p0=1  requires ["p1 0..100"]  constrains []
    p1=1  requires []  constrains []
    p1=2  requires ["p2 1..2"]  constrains []
    p2=1  requires []  constrains []
    p2=2  requires []  constrains []
    HINT p1 all
    ROOT requires ["p2 0..100"]
    SOFT [p0=1]
    "#,
    // spurious conflict of a hinted candidate
    r#"
    p0=2  requires ["p1 0..100"]  constrains []
    p0=3  requires []  constrains []
    p1=1  requires []  constrains ["p0 2..3"]
    p1=2  requires ["p0 3..4"]  constrains []
    p2=1  requires ["p0 0..100"]  constrains []
    HINT p0 all
    HINT p1 all
    ROOT requires ["p1 2..3"]
    SOFT [p2=1]
    "#,
    // excluded soft requirement kept
    r#"
    p0=1  requires []  constrains []
    p1=1  requires ["p0 0..100"]  constrains []
    p2=1  requires []  constrains []
    p3=1  requires []  constrains []
    EXCLUDE p0=1
    ROOT requires ["p3 0..100"]
    SOFT [p0=1, p1=1, p2=1]
    "#,
    // D10: a soft requirement for another version of an installed package
    r#"
    p0=1  requires []  constrains []
    p0=2  requires []  constrains []
    p1=1  requires ["p0 2..3"]  constrains []
    ROOT requires ["p1"]
    SOFT [p0=1]
    "#,
    // D3/D7/D8 flavour: hints, exclusion, self constrains
    r#"
    p0=1  requires ["p1"]  constrains ["p0 2..3"]
    p0=2  requires ["p1 1..2"]  constrains []
    p1=1  requires []  constrains ["p0 1..2"]
    p1=2  requires ["p2"]  constrains []
    p2=1  requires []  constrains []  UNKNOWN
    EXCLUDE p1=2
    HINT p0 all
    HINT p1 some 1
    ROOT requires ["p0"]
    SOFT [p1=2]
    "#,
];

fn mutate(u: &mut Universe, r: &mut Rng) {
    let nvs: Vec<u32> = (0..u.n_names)
        .map(|n| u.pkgs.iter().filter(|p| p.name == n).map(|p| p.version).max().unwrap_or(0))
        .collect();
    let npk = u.pkgs.len().max(1) as u64;
    let pi = r.below(npk) as usize;
    let prob = r.below(u.probs.len() as u64) as usize;
    match r.below(20) {
        0 | 1 if !u.pkgs.is_empty() => {
            let own = u.pkgs[pi].name;
            let mut un = vec![gen_spec(r, &nvs, 40, Some(own))];
            if r.chance(15) {
                un.push(gen_spec(r, &nvs, 40, Some(own)));
            }
            u.pkgs[pi].deps.push(un);
        }
        2 if !u.pkgs.is_empty() && !u.pkgs[pi].deps.is_empty() => {
            let k = r.below(u.pkgs[pi].deps.len() as u64) as usize;
            u.pkgs[pi].deps.remove(k);
        }
        3 | 4 if !u.pkgs.is_empty() => {
            let own = u.pkgs[pi].name;
            u.pkgs[pi].constrains.push(gen_spec(r, &nvs, 0, Some(own)));
        }
        5 if !u.pkgs.is_empty() && !u.pkgs[pi].constrains.is_empty() => {
            let k = r.below(u.pkgs[pi].constrains.len() as u64) as usize;
            u.pkgs[pi].constrains.remove(k);
        }
        6 | 7 if !u.pkgs.is_empty() => {
            // a new version of an existing package
            let mut pk = u.pkgs[pi].clone();
            pk.version = nvs[pk.name] + 1;
            if r.chance(50) {
                pk.deps.clear();
            }
            if r.chance(50) {
                pk.constrains.clear();
            }
            u.pkgs.push(pk);
        }
        8 if !u.pkgs.is_empty() => {
            // change one range
            let pk = &mut u.pkgs[pi];
            if let Some(s) = pk.deps.iter_mut().flatten().chain(pk.constrains.iter_mut()).next() {
                let n = gen_spec(r, &nvs, 30, None);
                s.lo = n.lo;
                s.hi = n.hi;
            }
        }
        9 if !u.pkgs.is_empty() => u.pkgs[pi].unknown = !u.pkgs[pi].unknown,
        10 if !u.pkgs.is_empty() => {
            let k = (u.pkgs[pi].name, u.pkgs[pi].version);
            if !u.excluded.remove(&k) {
                u.excluded.insert(k);
            }
        }
        11 if !u.pkgs.is_empty() => {
            let (n, v) = (u.pkgs[pi].name, u.pkgs[pi].version);
            if u.locked.remove(&n).is_none() {
                u.locked.insert(n, v);
            }
        }
        12 if !u.pkgs.is_empty() => {
            let (n, v) = (u.pkgs[pi].name, u.pkgs[pi].version);
            if u.favored.remove(&n).is_none() {
                u.favored.insert(n, v);
            }
        }
        13 | 14 => {
            let n = r.below(u.n_names as u64) as usize;
            let h = match r.below(3) {
                0 => Hint::None,
                1 => Hint::All,
                _ => Hint::Some((1..=nvs[n]).filter(|_| r.chance(50)).collect()),
            };
            u.hints.insert(n, h);
        }
        15 => {
            let mut un = vec![gen_spec(r, &nvs, 50, None)];
            if r.chance(15) {
                un.push(gen_spec(r, &nvs, 50, None));
            }
            u.probs[prob].root_reqs.push(un);
        }
        16 if u.probs[prob].root_reqs.len() > 1 => {
            let k = r.below(u.probs[prob].root_reqs.len() as u64) as usize;
            u.probs[prob].root_reqs.remove(k);
        }
        17 | 18 if !u.pkgs.is_empty() => {
            let s = (u.pkgs[pi].name, u.pkgs[pi].version);
            if r.chance(70) {
                u.probs[prob].soft.push(s);
            } else {
                u.probs[prob].soft.insert(0, s);
            }
        }
        19 => {
            u.id_seed = r.next() | 1;
            u.cand_seed = r.next() | 1;
            u.sort_mode = r.below(4) as u8;
        }
        _ => {}
    }
}

/// HUNT_CASES mutants of the corpus (and of earlier mutants), checked in mode 1 and, with the
/// problem repeated / varied, in mode 2
#[test]
fn mutation_search() {
    if std::env::var("HUNT_MUTATE").is_err() {
        return;
    }
    let cases = env_u64("HUNT_CASES", 2000);
    let seed0 = env_u64("HUNT_SEED", 1);
    start_watchdog();
    let mut r = Rng::new(seed0);
    let mut pool: Vec<Universe> = CORPUS.iter().map(|t| parse_universe(t)).collect();
    let base = pool.len();
    let mut kinds: BTreeMap<String, u64> = BTreeMap::new();
    let t0 = Instant::now();
    for case in 0..cases {
        let mut u = pool[r.below(pool.len() as u64) as usize].clone();
        for _ in 0..r.range(1, 4) {
            mutate(&mut u, &mut r);
        }
        let mode = if r.chance(70) {
            1
        } else {
            // reuse: the same universe with a second, mutated problem
            let mut p2 = u.probs[0].clone();
            if r.chance(50) {
                p2.soft.clear();
            }
            u.probs.push(p2);
            2
        };
        if let Some(f) = check(&u, mode, &format!("mutation seed={seed0} case={case}")) {
            let key = class_of(&f);
            let n = kinds.entry(key).or_insert(0);
            *n += 1;
            if *n <= 3 {
                println!("=== FAILURE mutation seed={seed0} case={case} mode={mode}: {f}\n{}", u.dump());
            }
        } else if u.pkgs.len() <= 14 && r.chance(10) {
            // keep some mutants as new starting points
            u.probs.truncate(1);
            if pool.len() < base + 400 {
                pool.push(u);
            } else {
                let k = base + r.below(400) as usize;
                pool[k] = u;
            }
        }
        if (case + 1) % 50_000 == 0 {
            println!("... {} mutants, {} failure classes, {:.0}s", case + 1, kinds.len(), t0.elapsed().as_secs_f64());
        }
    }
    println!("mutation seed={seed0}: {cases} mutants done in {:.0}s", t0.elapsed().as_secs_f64());
    for (k, n) in &kinds {
        println!("{n:6} x {k}");
    }
}
