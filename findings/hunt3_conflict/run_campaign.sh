#!/bin/bash
# usage: run_campaign.sh <tag> <cases per process> [seed base]   (16 processes, disjoint seed ranges)
TAG=$1; CASES=$2; BASE=${3:-0}
DBG=$(ls /tmp/hunt3-conflict/target/dbg/release/deps/hunt3-* | grep -v '\.d$' | head -1)   # release + debug assertions + overflow checks
REL=$(ls /tmp/hunt3-conflict/target/release/deps/hunt3-* | grep -v '\.d$' | head -1)       # plain release
DEV=$(ls /tmp/hunt3-conflict/target/debug/deps/hunt3-* | grep -v '\.d$' | head -1)         # plain dev profile
cd /tmp/hunt3-conflict
i=0
launch() { # binary-kind binary mode cases [profile]
  i=$((i+1))
  HUNT_PROFILE=$5 HUNT_MODE=$3 HUNT_CASES=$4 HUNT_SEED=$((BASE + i*10000000 + 1)) HUNT_REPORT=2 \
    $2 random_search --nocapture > hunt_out/logs/$TAG.$i.mode$3.$1${5:+.profile$5}.log 2>&1 &
}
for k in 1 2 3 4; do launch dbg $DBG 3 $CASES; done
for k in 1 2; do launch dbg $DBG 4 $CASES; done
launch rel $REL 4 $CASES
for k in 1 2; do launch dbg $DBG 5 $((CASES/3)); done
launch dbg $DBG 0 $CASES
launch dbg $DBG 1 $CASES
launch dbg $DBG 2 $((CASES/3))
launch dbg $DBG 0 $CASES 5
launch dbg $DBG 1 $CASES 7
launch rel $REL 3 $CASES
launch dev $DEV 4 $((CASES/8))
wait
