//! Repro (hunt 3, kind M-MERGE): candidates that are NOT interchangeable are merged into one
//! candidate of the user-friendly message, which then states things that are false and loses
//! the actual reason of the conflict.
//!
//! Universe: p2=1 constrains `p3 1..2`;  p2=3 requires `p3 0..100`;  p3=3.
//!           (all candidates have `hint_dependencies_available`)
//! Problem:  root requires `p2 1..2` and `p2 3..4`.
//! Conflict found by the solver (a valid one): p2=3 needs p3=3, which p2=1 forbids.
//!
//! Message on the current source:
//!
//!   The following packages are incompatible
//!   ├─ p2 3..4 can be installed with any of the following options:
//!   │  └─ p2 p2=1 | p2=3 would require                     <- p2=1 is no candidate of `p2 3..4`
//!   │     └─ p3 0..100, which can be installed with ...    <- p2=1 does not require p3 at all
//!   │        └─ p3 p3=3
//!   └─ p2 1..2 cannot be installed because there are no viable options:
//!                                                          <- nothing listed; the constrains
//!                                                             `p3 1..2` of p2=1 - the reason of
//!                                                             the conflict - is never mentioned
//!
//! Property: solvables that are shown as one merged candidate are interchangeable in the conflict
//! graph: they have the same incoming and outgoing edges INCLUDING the edge labels (which
//! requirement / constrains / lock leads to them or leaves them).
//!
//! Cause: src/conflict.rs:404-464 (`ConflictGraph::simplify`): the merge key is
//! (package name, set of predecessor NODES, set of successor NODES); the edge weights are
//! ignored, so "root --requires p2 1..2--> p2=1 --constrains p3 1..2--> p3=3" and
//! "root --requires p2 3..4--> p2=3 --requires p3 0..100--> p3=3" look the same.
//! `fmt_graph` (src/conflict.rs:850-972) then renders the edges of the first member for all
//! members and marks all of them as reported.
//!
//! Copy to tests/ and run:  cargo test --offline --test repro_merge
use std::{any::Any, cell::RefCell, collections::HashMap, fmt::Display};

use petgraph::visit::EdgeRef;
use resolvo::{
    Candidates, Dependencies, DependencyProvider, Interner, KnownDependencies, NameId, Problem,
    SolvableId, Solver, SolverCache, StringId, UnsolvableOrCancelled, VersionSetId,
    VersionSetUnionId,
    conflict::{ConflictEdge, ConflictNode},
    utils::{Pool, VersionSet},
};

/// half open range of versions
#[derive(Clone, Debug, PartialEq, Eq, Hash)]
struct Range(u32, u32);
impl VersionSet for Range {
    type V = u32;
}
impl Display for Range {
    fn fmt(&self, f: &mut std::fmt::Formatter<'_>) -> std::fmt::Result {
        write!(f, "{}..{}", self.0, self.1)
    }
}

type Spec = (&'static str, u32, u32);
struct Pkg {
    name: &'static str,
    version: u32,
    requires: Vec<Spec>,
    constrains: Vec<Spec>,
}

struct Provider {
    pool: Pool<Range, String>,
    pkgs: Vec<Pkg>,
    ids: RefCell<HashMap<(String, u32), SolvableId>>,
}
impl Provider {
    fn new(pkgs: Vec<Pkg>) -> Self {
        Self { pool: Pool::new(), pkgs, ids: Default::default() }
    }
    fn solvable(&self, name: &str, version: u32) -> SolvableId {
        let n = self.pool.intern_package_name(name.to_string());
        *self
            .ids
            .borrow_mut()
            .entry((name.to_string(), version))
            .or_insert_with(|| self.pool.intern_solvable(n, version))
    }
    fn vs(&self, s: &Spec) -> VersionSetId {
        let n = self.pool.intern_package_name(s.0.to_string());
        self.pool.intern_version_set(n, Range(s.1, s.2))
    }
    fn describe(&self, s: SolvableId) -> String {
        let sv = self.pool.resolve_solvable(s);
        format!("{}={}", self.pool.resolve_package_name(sv.name), sv.record)
    }
}
impl Interner for Provider {
    fn display_solvable(&self, s: SolvableId) -> impl Display + '_ {
        self.describe(s)
    }
    fn display_name(&self, name: NameId) -> impl Display + '_ {
        self.pool.resolve_package_name(name).clone()
    }
    fn display_version_set(&self, vs: VersionSetId) -> impl Display + '_ {
        self.pool.resolve_version_set(vs).clone()
    }
    fn display_string(&self, s: StringId) -> impl Display + '_ {
        self.pool.resolve_string(s).to_owned()
    }
    fn version_set_name(&self, vs: VersionSetId) -> NameId {
        self.pool.resolve_version_set_package_name(vs)
    }
    fn solvable_name(&self, s: SolvableId) -> NameId {
        self.pool.resolve_solvable(s).name
    }
    fn version_sets_in_union(&self, u: VersionSetUnionId) -> impl Iterator<Item = VersionSetId> {
        self.pool.resolve_version_set_union(u)
    }
}
impl DependencyProvider for Provider {
    async fn filter_candidates(
        &self,
        candidates: &[SolvableId],
        version_set: VersionSetId,
        inverse: bool,
    ) -> Vec<SolvableId> {
        let r = self.pool.resolve_version_set(version_set);
        candidates
            .iter()
            .copied()
            .filter(|s| {
                let v = self.pool.resolve_solvable(*s).record;
                (r.0 <= v && v < r.1) != inverse
            })
            .collect()
    }
    async fn get_candidates(&self, name: NameId) -> Option<Candidates> {
        let name = self.pool.resolve_package_name(name).clone();
        let mut c = Candidates::default();
        for p in self.pkgs.iter().filter(|p| p.name == name) {
            c.candidates.push(self.solvable(p.name, p.version));
        }
        // the dependencies are cheaply available, so the solver looks at the candidates early
        // (this decides which of the possible conflicts is found and reported)
        c.hint_dependencies_available = resolvo::HintDependenciesAvailable::All;
        if c.candidates.is_empty() { None } else { Some(c) }
    }
    async fn sort_candidates(&self, _: &SolverCache<Self>, solvables: &mut [SolvableId]) {
        // highest version first
        solvables.sort_by_key(|s| std::cmp::Reverse(self.pool.resolve_solvable(*s).record));
    }
    async fn get_dependencies(&self, solvable: SolvableId) -> Dependencies {
        let sv = self.pool.resolve_solvable(solvable);
        let name = self.pool.resolve_package_name(sv.name);
        let p = self
            .pkgs
            .iter()
            .find(|p| p.name == name && p.version == sv.record)
            .unwrap();
        Dependencies::Known(KnownDependencies {
            requirements: p.requires.iter().map(|s| self.vs(s).into()).collect(),
            constrains: p.constrains.iter().map(|s| self.vs(s)).collect(),
        })
    }
    fn should_cancel_with_value(&self) -> Option<Box<dyn Any>> {
        None
    }
}

fn pkg(name: &'static str, version: u32, requires: Vec<Spec>, constrains: Vec<Spec>) -> Pkg {
    Pkg { name, version, requires, constrains }
}

#[test]
fn merged_candidates_are_interchangeable() {
    let provider = Provider::new(vec![
        pkg("p2", 1, vec![], vec![("p3", 1, 2)]),
        pkg("p2", 3, vec![("p3", 0, 100)], vec![]),
        pkg("p3", 3, vec![], vec![]),
    ]);
    let requirements = vec![
        provider.vs(&("p2", 1, 2)).into(),
        provider.vs(&("p2", 3, 4)).into(),
    ];
    let mut solver = Solver::new(provider);
    let problem = Problem::new().requirements(requirements);
    let conflict = match solver.solve(problem) {
        Err(UnsolvableOrCancelled::Unsolvable(c)) => c,
        other => panic!("expected Unsolvable, got {:?}", other.map_err(|_| "cancelled")),
    };
    let message = conflict.display_user_friendly(&solver).to_string();
    println!("{message}");
    let graph = conflict.graph(&solver);
    let provider = solver.provider();
    let name = |n: &ConflictNode| match n {
        ConflictNode::Solvable(s) => match s.solvable() {
            Some(s) => provider.describe(s),
            None => "<root>".to_string(),
        },
        ConflictNode::UnresolvedDependency => "<unresolved>".to_string(),
        ConflictNode::Excluded(_) => "<excluded>".to_string(),
    };
    let label = |w: &ConflictEdge| match w {
        ConflictEdge::Requires(r) => format!("requires {}", r.display(provider)),
        ConflictEdge::Conflict(_) => "conflict".to_string(),
    };
    // the labelled edges of a solvable
    let signature = |s: SolvableId| -> Vec<String> {
        let mut v = vec![];
        for e in graph.graph.edge_references() {
            let (a, b) = (&graph.graph[e.source()], &graph.graph[e.target()]);
            if name(a) == provider.describe(s) {
                v.push(format!("out [{}] {}", label(e.weight()), name(b)));
            } else if name(b) == provider.describe(s) {
                v.push(format!("in [{}] {}", label(e.weight()), name(a)));
            }
        }
        v.sort();
        v
    };
    for merged in graph.simplify(provider).values() {
        let first = signature(merged.ids[0]);
        for &other in &merged.ids[1..] {
            assert_eq!(
                first,
                signature(other),
                "{} and {} are shown as ONE candidate although their edges differ",
                provider.describe(merged.ids[0]),
                provider.describe(other),
            );
        }
    }
    // (never reached on the current source) the message consequences
    assert!(!message.contains("p2=1 | p2=3"));
    assert!(message.contains("p3 1..2"), "the reason of the conflict is not mentioned");
}
