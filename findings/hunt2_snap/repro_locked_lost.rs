//! Repro: `Candidates::locked` is not captured by `DependencySnapshot`.
//!
//! `from_provider_async` copies only `candidates` and `excluded` into `snapshot::Package`
//! (src/snapshot.rs:203-207; the struct has no field for it, src/snapshot.rs:62-75) and
//! `SnapshotProvider::get_candidates` answers `locked: None` (src/snapshot.rs:476-482).
//! A locked candidate is the ONLY candidate of its package that may be selected
//! (src/lib.rs:160-164, src/solver/encoding.rs:190-193), so the snapshot
//!   * turns an unsolvable problem into a solvable one, and
//!   * returns solutions that violate the provider's lock.
//!
//! Data:  a=1, a=2 (highest first), `a` locked to a=1.
use std::{collections::BTreeMap, fmt::Display};

use resolvo::{
    Candidates, Dependencies, DependencyProvider, Interner, KnownDependencies, NameId, Problem,
    SolvableId, Solver, SolverCache, StringId, UnsolvableOrCancelled, VersionSetId,
    VersionSetUnionId,
    snapshot::DependencySnapshot,
    utils::{Pool, VersionSet},
};

// ---- a minimal provider over explicit data ---------------------------------------------------

#[derive(Clone, Debug, PartialEq, Eq, Hash)]
struct R(u32, u32);
impl VersionSet for R {
    type V = u32;
}
impl Display for R {
    fn fmt(&self, f: &mut std::fmt::Formatter<'_>) -> std::fmt::Result {
        write!(f, "{}..{}", self.0, self.1)
    }
}

#[derive(Default)]
struct P {
    pool: Pool<R, String>,
    candidates: BTreeMap<NameId, Candidates>,
    deps: BTreeMap<SolvableId, KnownDependencies>,
}

#[allow(dead_code)]
impl P {
    fn name(&self, n: &str) -> NameId {
        self.pool.intern_package_name(n.to_string())
    }
    /// registers the candidate `n=v` (no dependencies yet)
    fn solvable(&mut self, n: &str, v: u32) -> SolvableId {
        let name = self.name(n);
        let s = self.pool.intern_solvable(name, v);
        self.candidates.entry(name).or_default().candidates.push(s);
        self.deps.insert(s, Default::default());
        s
    }
    /// the version set `n lo..hi` (half open)
    fn vs(&self, n: &str, lo: u32, hi: u32) -> VersionSetId {
        self.pool.intern_version_set(self.name(n), R(lo, hi))
    }
    fn any(&self, n: &str) -> VersionSetId {
        self.vs(n, 0, 100)
    }
    fn requires(&mut self, s: SolvableId, vs: VersionSetId) {
        self.deps.get_mut(&s).unwrap().requirements.push(vs.into());
    }
    fn constrains(&mut self, s: SolvableId, vs: VersionSetId) {
        self.deps.get_mut(&s).unwrap().constrains.push(vs);
    }
    fn all_names(&self) -> Vec<NameId> {
        self.candidates.keys().copied().collect()
    }
}

impl Interner for P {
    fn display_solvable(&self, s: SolvableId) -> impl Display + '_ {
        let s = self.pool.resolve_solvable(s);
        format!("{}={}", self.pool.resolve_package_name(s.name), s.record)
    }
    fn display_name(&self, name: NameId) -> impl Display + '_ {
        self.pool.resolve_package_name(name).clone()
    }
    fn display_version_set(&self, vs: VersionSetId) -> impl Display + '_ {
        self.pool.resolve_version_set(vs).clone()
    }
    fn display_string(&self, s: StringId) -> impl Display + '_ {
        self.pool.resolve_string(s).to_owned()
    }
    fn version_set_name(&self, vs: VersionSetId) -> NameId {
        self.pool.resolve_version_set_package_name(vs)
    }
    fn solvable_name(&self, s: SolvableId) -> NameId {
        self.pool.resolve_solvable(s).name
    }
    fn version_sets_in_union(&self, u: VersionSetUnionId) -> impl Iterator<Item = VersionSetId> {
        self.pool.resolve_version_set_union(u)
    }
}

impl DependencyProvider for P {
    async fn filter_candidates(
        &self,
        candidates: &[SolvableId],
        vs: VersionSetId,
        inverse: bool,
    ) -> Vec<SolvableId> {
        let r = self.pool.resolve_version_set(vs);
        candidates
            .iter()
            .copied()
            .filter(|s| {
                let v = self.pool.resolve_solvable(*s).record;
                (r.0 <= v && v < r.1) != inverse
            })
            .collect()
    }
    async fn get_candidates(&self, name: NameId) -> Option<Candidates> {
        self.candidates.get(&name).cloned()
    }
    async fn sort_candidates(&self, _: &SolverCache<Self>, solvables: &mut [SolvableId]) {
        // highest version first
        solvables.sort_by_key(|s| std::cmp::Reverse(self.pool.resolve_solvable(*s).record));
    }
    async fn get_dependencies(&self, s: SolvableId) -> Dependencies {
        Dependencies::Known(self.deps[&s].clone())
    }
}

/// Solves `requirements` with `provider`; the solution in solver order, or the conflict message.
fn solve<D: DependencyProvider>(provider: D, requirements: &[VersionSetId]) -> Result<Vec<String>, String> {
    let mut solver = Solver::new(provider);
    let problem = Problem::new().requirements(requirements.iter().map(|&v| v.into()).collect());
    match solver.solve(problem) {
        Ok(sol) => Ok(sol
            .iter()
            .map(|s| solver.provider().display_solvable(*s).to_string())
            .collect()),
        Err(UnsolvableOrCancelled::Unsolvable(c)) => {
            Err(c.display_user_friendly(&solver).to_string())
        }
        Err(UnsolvableOrCancelled::Cancelled(_)) => Err("cancelled".into()),
    }
}

/// Solves the problem (a) with the provider built by `build` and (b) through a snapshot of a
/// second, identical provider (seeded with all package names and the requirements themselves).
fn direct_and_snapshot(
    build: fn() -> (P, Vec<VersionSetId>),
) -> (Result<Vec<String>, String>, Result<Vec<String>, String>) {
    let (p, reqs) = build();
    let direct = solve(p, &reqs);
    let (p, reqs) = build();
    let names = p.all_names();
    let snapshot = DependencySnapshot::from_provider(p, names, reqs.clone(), []).unwrap();
    let through_snapshot = solve(snapshot.provider(), &reqs);
    (direct, through_snapshot)
}

/// a=1, a=2; locked: a=1
fn locked_provider(lo: u32, hi: u32) -> (P, Vec<VersionSetId>) {
    let mut p = P::default();
    let a1 = p.solvable("a", 1);
    p.solvable("a", 2);
    let a = p.name("a");
    p.candidates.get_mut(&a).unwrap().locked = Some(a1);
    let req = p.vs("a", lo, hi);
    (p, vec![req])
}

/// problem `a 2..3`: unsolvable for the provider (a is locked to 1); the snapshot installs a=2.
#[test]
fn snapshot_keeps_the_verdict_of_a_provider_with_a_locked_candidate() {
    let (direct, snapshot) = direct_and_snapshot(|| locked_provider(2, 3));
    assert!(direct.is_err(), "provider: {direct:?}");
    assert!(
        direct.as_ref().unwrap_err().contains("a=1 is locked"),
        "provider: {direct:?}"
    );
    assert_eq!(direct, snapshot);
}

/// problem `a`: the provider installs the locked a=1; the snapshot installs a=2.
#[test]
fn snapshot_solution_respects_the_lock() {
    let (direct, snapshot) = direct_and_snapshot(|| locked_provider(0, 100));
    assert_eq!(direct, Ok(vec!["a=1".to_string()]));
    assert_eq!(direct, snapshot);
}
