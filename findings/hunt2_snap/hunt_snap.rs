//! Search harness for
//!  (Q1) snapshot fidelity (src/snapshot.rs)
//!  (Q2) resolvo::Mapping vs a BTreeMap reference
//!  (Q3) resolvo::utils::Pool interning
//!  (Q4) reproducibility of solutions / conflict messages
//!
//! Run e.g.
//!   HUNT_CASES=20000 HUNT_SEED=1 cargo test --offline --workspace --test hunt_snap random_search -- --nocapture
//!   HUNT_SHRINK=<seed> HUNT_KIND='<prefix of kind>' cargo test ... shrink_seed -- --nocapture
//!   HUNT_DIGEST=2000 cargo test ... digest -- --nocapture      (cross-process reproducibility)
#![allow(clippy::type_complexity)]
use std::{
    any::Any,
    cell::RefCell,
    collections::{BTreeMap, BTreeSet},
    fmt::{Display, Write as _},
    panic::{AssertUnwindSafe, catch_unwind},
    sync::{Arc, Mutex},
};

use resolvo::{
    Candidates, Dependencies, DependencyProvider, HintDependenciesAvailable, Interner,
    KnownDependencies, Mapping, NameId, Problem, Requirement, SolvableId, Solver, SolverCache,
    StringId, UnsolvableOrCancelled, VersionSetId, VersionSetUnionId,
    snapshot::{DependencySnapshot, SnapshotProvider},
    utils::{Pool, VersionSet},
};

// ---------------------------------------------------------------------------
// Universe description (plain data, printable)
// ---------------------------------------------------------------------------

/// half-open version range [lo, hi) of package `name`
#[derive(Clone, Debug, PartialEq, Eq, Hash, PartialOrd, Ord)]
pub struct Spec {
    pub name: usize,
    pub lo: u32,
    pub hi: u32,
}

#[derive(Clone, Debug, Default)]
pub struct Pkg {
    pub name: usize,
    pub version: u32,
    /// each requirement is a union of specs
    pub deps: Vec<Vec<Spec>>,
    pub constrains: Vec<Spec>,
    /// Dependencies::Unknown
    pub unknown: bool,
}

#[derive(Clone, Debug, Default)]
pub struct Universe {
    pub n_names: usize,
    pub pkgs: Vec<Pkg>,
    pub root_reqs: Vec<Vec<Spec>>,
    pub root_constraints: Vec<Spec>,
    pub favored: BTreeMap<usize, u32>,
    pub locked: BTreeMap<usize, u32>,
    /// (name, version) -> reason index
    pub excluded: BTreeMap<(usize, u32), u8>,
    /// 0 = no hints, 1 = all, 2 = Some(odd versions)
    pub hints: u8,
    /// candidate preference: 0 = highest first, 1 = lowest first, 2 = pseudo random (salt)
    pub order: u8,
    pub salt: u64,
    /// solve through a synthetic package `root` that carries the root requirements
    pub via_root: bool,
    /// how the snapshot is seeded (besides the version sets of the problem itself):
    /// 0 = all names, 1 = nothing else, 2 = solvables, 3 = names and solvables
    pub seed_mode: u8,
    /// excluded solvables are listed ONLY in `Candidates::excluded`, not in `candidates`
    pub excluded_separate: bool,
}

fn nm(i: usize) -> String {
    format!("p{i}")
}

impl Display for Spec {
    fn fmt(&self, f: &mut std::fmt::Formatter<'_>) -> std::fmt::Result {
        write!(f, "{} {}..{}", nm(self.name), self.lo, self.hi)
    }
}

fn union_str(u: &[Spec]) -> String {
    u.iter()
        .map(|s| s.to_string())
        .collect::<Vec<_>>()
        .join(" | ")
}

impl Universe {
    pub fn dump(&self) -> String {
        let mut s = String::new();
        for p in &self.pkgs {
            writeln!(
                s,
                "  {}={}  requires [{}]  constrains [{}]{}",
                nm(p.name),
                p.version,
                p.deps
                    .iter()
                    .map(|u| format!("\"{}\"", union_str(u)))
                    .collect::<Vec<_>>()
                    .join(", "),
                p.constrains
                    .iter()
                    .map(|c| format!("\"{c}\""))
                    .collect::<Vec<_>>()
                    .join(", "),
                if p.unknown { "  UNKNOWN-DEPS" } else { "" }
            )
            .unwrap();
        }
        writeln!(
            s,
            "  ROOT requires [{}]",
            self.root_reqs
                .iter()
                .map(|u| format!("\"{}\"", union_str(u)))
                .collect::<Vec<_>>()
                .join(", ")
        )
        .unwrap();
        writeln!(
            s,
            "  ROOT constrains [{}]",
            self.root_constraints
                .iter()
                .map(|c| format!("\"{c}\""))
                .collect::<Vec<_>>()
                .join(", ")
        )
        .unwrap();
        writeln!(
            s,
            "  n_names {} favored {:?} locked {:?} excluded {:?} hints {} order {} salt {} via_root {} seed_mode {} excluded_separate {}",
            self.n_names,
            self.favored,
            self.locked,
            self.excluded,
            self.hints,
            self.order,
            self.salt,
            self.via_root,
            self.seed_mode,
            self.excluded_separate
        )
        .unwrap();
        s
    }
}

// ---------------------------------------------------------------------------
// Provider. EVERYTHING is interned eagerly and deterministically in `new`, so
// that two providers built from the same universe hand out identical ids.
// ---------------------------------------------------------------------------

#[derive(Clone, Debug, PartialEq, Eq, Hash)]
pub struct R(u32, u32);
impl VersionSet for R {
    type V = u32;
}
impl Display for R {
    fn fmt(&self, f: &mut std::fmt::Formatter<'_>) -> std::fmt::Result {
        write!(f, "{}..{}", self.0, self.1)
    }
}

const REASONS: &[&str] = &["excluded: reason A", "excluded: reason B", "excluded: C"];

pub struct Prov {
    pool: Pool<R, String>,
    u: Universe,
    /// solvable id -> (name index, version); name index n_names == root
    describe: BTreeMap<SolvableId, (usize, u32)>,
    solvable_of: BTreeMap<(usize, u32), SolvableId>,
    deps: BTreeMap<SolvableId, Dependencies>,
    /// member order of every union, as interned
    unions: BTreeMap<VersionSetUnionId, Vec<VersionSetId>>,
    pub root_solvable: SolvableId,
    pub root_vs: VersionSetId,
    pub root_reqs: Vec<Requirement>,
    pub root_cons: Vec<VersionSetId>,
}

impl Prov {
    pub fn new(u: &Universe) -> Self {
        let pool: Pool<R, String> = Pool::new();
        for i in 0..u.n_names {
            pool.intern_package_name(nm(i));
        }
        let root_name = pool.intern_package_name("root".to_string());
        let mut describe = BTreeMap::new();
        let mut solvable_of = BTreeMap::new();
        for p in &u.pkgs {
            let name = pool.intern_package_name(nm(p.name));
            let s = pool.intern_solvable(name, p.version);
            describe.insert(s, (p.name, p.version));
            solvable_of.insert((p.name, p.version), s);
        }
        let root_solvable = pool.intern_solvable(root_name, 1);
        describe.insert(root_solvable, (u.n_names, 1));
        solvable_of.insert((u.n_names, 1), root_solvable);
        for r in REASONS {
            pool.intern_string(*r);
        }

        let mut unions = BTreeMap::new();
        let vs = |s: &Spec| pool.intern_version_set(pool.intern_package_name(nm(s.name)), R(s.lo, s.hi));
        let mut req = |un: &[Spec]| -> Requirement {
            if un.len() == 1 {
                vs(&un[0]).into()
            } else {
                let ids: Vec<VersionSetId> = un.iter().map(&vs).collect();
                let id = pool.intern_version_set_union(ids[0], ids[1..].iter().copied());
                unions.insert(id, ids);
                id.into()
            }
        };
        let mut deps = BTreeMap::new();
        for p in &u.pkgs {
            let s = solvable_of[&(p.name, p.version)];
            let d = if p.unknown {
                Dependencies::Unknown(pool.intern_string(format!(
                    "dependencies of {}={} could not be fetched",
                    nm(p.name),
                    p.version
                )))
            } else {
                Dependencies::Known(KnownDependencies {
                    requirements: p.deps.iter().map(|un| req(un)).collect(),
                    constrains: p.constrains.iter().map(&vs).collect(),
                })
            };
            deps.insert(s, d);
        }
        // the root package carries its own copies of the root requirements
        let root_deps = Dependencies::Known(KnownDependencies {
            requirements: u.root_reqs.iter().map(|un| req(un)).collect(),
            constrains: u.root_constraints.iter().map(&vs).collect(),
        });
        deps.insert(root_solvable, root_deps);
        let root_vs = pool.intern_version_set(root_name, R(0, 100));
        // direct root requirements (used when !via_root)
        let root_reqs: Vec<Requirement> = u.root_reqs.iter().map(|un| req(un)).collect();
        let root_cons: Vec<VersionSetId> = u.root_constraints.iter().map(&vs).collect();
        Prov {
            pool,
            u: u.clone(),
            describe,
            solvable_of,
            deps,
            unions,
            root_solvable,
            root_vs,
            root_reqs,
            root_cons,
        }
    }
    fn name_index(&self, name: NameId) -> usize {
        let pname = self.pool.resolve_package_name(name);
        if pname == "root" {
            self.u.n_names
        } else {
            pname[1..].parse().unwrap()
        }
    }
    pub fn name_id(&self, n: usize) -> NameId {
        if n == self.u.n_names {
            self.pool.intern_package_name("root".to_string())
        } else {
            self.pool.intern_package_name(nm(n))
        }
    }
    pub fn describe(&self, s: SolvableId) -> (usize, u32) {
        self.describe[&s]
    }
    pub fn problem(&self) -> (Vec<Requirement>, Vec<VersionSetId>) {
        if self.u.via_root {
            (vec![self.root_vs.into()], vec![])
        } else {
            (self.root_reqs.clone(), self.root_cons.clone())
        }
    }
    /// the candidates of a name as the universe defines them
    fn candidates_of(&self, n: usize) -> Option<Candidates> {
        if n == self.u.n_names {
            return Some(Candidates {
                candidates: vec![self.root_solvable],
                ..Default::default()
            });
        }
        let versions: Vec<u32> = self
            .u
            .pkgs
            .iter()
            .filter(|p| p.name == n)
            .map(|p| p.version)
            .collect();
        if versions.is_empty() {
            return None;
        }
        let mut c = Candidates::default();
        let mut some = vec![];
        for v in versions {
            let s = self.solvable_of[&(n, v)];
            let excl = self.u.excluded.get(&(n, v));
            if !(excl.is_some() && self.u.excluded_separate) {
                c.candidates.push(s);
            }
            if self.u.favored.get(&n) == Some(&v) {
                c.favored = Some(s);
            }
            if self.u.locked.get(&n) == Some(&v) {
                c.locked = Some(s);
            }
            if let Some(r) = self.u.excluded.get(&(n, v)) {
                c.excluded
                    .push((s, self.pool.intern_string(REASONS[*r as usize % REASONS.len()])));
            }
            if v % 2 == 1 {
                some.push(s);
            }
        }
        c.hint_dependencies_available = match self.u.hints {
            1 => HintDependenciesAvailable::All,
            2 => HintDependenciesAvailable::Some(some),
            _ => HintDependenciesAvailable::None,
        };
        Some(c)
    }
    fn pref_key(&self, s: SolvableId) -> u64 {
        let (n, v) = self.describe[&s];
        match self.u.order {
            0 => u64::MAX - v as u64,
            1 => v as u64,
            _ => {
                let mut x = self.u.salt ^ ((n as u64) << 32) ^ (v as u64).wrapping_mul(0x9E3779B97F4A7C15);
                x ^= x >> 29;
                x = x.wrapping_mul(0xBF58476D1CE4E5B9);
                x ^= x >> 32;
                (x << 8) | v as u64
            }
        }
    }
}

impl Interner for Prov {
    fn display_solvable(&self, solvable: SolvableId) -> impl Display + '_ {
        let s = self.pool.resolve_solvable(solvable);
        format!("{}={}", self.pool.resolve_package_name(s.name), s.record)
    }
    fn display_name(&self, name: NameId) -> impl Display + '_ {
        self.pool.resolve_package_name(name).clone()
    }
    fn display_version_set(&self, version_set: VersionSetId) -> impl Display + '_ {
        self.pool.resolve_version_set(version_set).clone()
    }
    fn display_string(&self, string_id: StringId) -> impl Display + '_ {
        self.pool.resolve_string(string_id).to_owned()
    }
    fn version_set_name(&self, version_set: VersionSetId) -> NameId {
        self.pool.resolve_version_set_package_name(version_set)
    }
    fn solvable_name(&self, solvable: SolvableId) -> NameId {
        self.pool.resolve_solvable(solvable).name
    }
    fn version_sets_in_union(
        &self,
        version_set_union: VersionSetUnionId,
    ) -> impl Iterator<Item = VersionSetId> {
        self.pool.resolve_version_set_union(version_set_union)
    }
}

impl DependencyProvider for Prov {
    async fn filter_candidates(
        &self,
        candidates: &[SolvableId],
        version_set: VersionSetId,
        inverse: bool,
    ) -> Vec<SolvableId> {
        let r = self.pool.resolve_version_set(version_set);
        candidates
            .iter()
            .copied()
            .filter(|s| {
                let v = self.pool.resolve_solvable(*s).record;
                (r.0 <= v && v < r.1) != inverse
            })
            .collect()
    }

    async fn get_candidates(&self, name: NameId) -> Option<Candidates> {
        self.candidates_of(self.name_index(name))
    }

    async fn sort_candidates(&self, _solver: &SolverCache<Self>, solvables: &mut [SolvableId]) {
        solvables.sort_by_key(|s| self.pref_key(*s));
    }

    async fn get_dependencies(&self, solvable: SolvableId) -> Dependencies {
        self.deps[&solvable].clone()
    }

    fn should_cancel_with_value(&self) -> Option<Box<dyn Any>> {
        None
    }
}

// ---------------------------------------------------------------------------
// A provider over a snapshot in which selected losses of the snapshot can be
// "repaired" from the original provider: used ONLY to attribute a difference
// to a cause (union order / locked / favored / hints).
// ---------------------------------------------------------------------------

pub const FIX_UNION: u8 = 1;
pub const FIX_HINTS: u8 = 2;
pub const FIX_LOCKED: u8 = 4;
pub const FIX_FAVORED: u8 = 8;

fn fix_names(f: u8) -> String {
    let mut v = vec![];
    if f & FIX_UNION != 0 {
        v.push("union-order");
    }
    if f & FIX_HINTS != 0 {
        v.push("hints");
    }
    if f & FIX_LOCKED != 0 {
        v.push("locked");
    }
    if f & FIX_FAVORED != 0 {
        v.push("favored");
    }
    v.join("+")
}

pub struct FixProv<'a> {
    inner: SnapshotProvider<'a>,
    snap: &'a DependencySnapshot,
    orig: &'a Prov,
    fix: u8,
}

impl Interner for FixProv<'_> {
    fn display_solvable(&self, solvable: SolvableId) -> impl Display + '_ {
        self.inner.display_solvable(solvable)
    }
    fn display_name(&self, name: NameId) -> impl Display + '_ {
        self.inner.display_name(name)
    }
    fn display_version_set(&self, version_set: VersionSetId) -> impl Display + '_ {
        self.inner.display_version_set(version_set)
    }
    fn display_string(&self, string_id: StringId) -> impl Display + '_ {
        self.inner.display_string(string_id)
    }
    fn version_set_name(&self, version_set: VersionSetId) -> NameId {
        self.inner.version_set_name(version_set)
    }
    fn solvable_name(&self, solvable: SolvableId) -> NameId {
        self.inner.solvable_name(solvable)
    }
    fn version_sets_in_union(
        &self,
        version_set_union: VersionSetUnionId,
    ) -> impl Iterator<Item = VersionSetId> {
        let v: Vec<VersionSetId> = if self.fix & FIX_UNION != 0 {
            self.orig.unions[&version_set_union].clone()
        } else {
            self.inner.version_sets_in_union(version_set_union).collect()
        };
        v.into_iter()
    }
}

impl DependencyProvider for FixProv<'_> {
    async fn filter_candidates(
        &self,
        candidates: &[SolvableId],
        version_set: VersionSetId,
        inverse: bool,
    ) -> Vec<SolvableId> {
        self.inner
            .filter_candidates(candidates, version_set, inverse)
            .await
    }
    async fn get_candidates(&self, name: NameId) -> Option<Candidates> {
        let mut c = self.inner.get_candidates(name).await?;
        let o = self
            .orig
            .candidates_of(self.orig.name_index(name))
            .unwrap_or_default();
        if self.fix & FIX_HINTS != 0 {
            c.hint_dependencies_available = o.hint_dependencies_available.clone();
        }
        if self.fix & FIX_LOCKED != 0 {
            c.locked = o.locked;
        }
        if self.fix & FIX_FAVORED != 0 {
            c.favored = o.favored;
        }
        Some(c)
    }
    async fn sort_candidates(&self, _solver: &SolverCache<Self>, solvables: &mut [SolvableId]) {
        solvables.sort_by_key(|&s| self.snap.solvables.get(s).expect("missing solvable").order);
    }
    async fn get_dependencies(&self, solvable: SolvableId) -> Dependencies {
        self.inner.get_dependencies(solvable).await
    }
}

// ---------------------------------------------------------------------------
// Running + validating
// ---------------------------------------------------------------------------

#[derive(Debug, Clone, PartialEq, Eq)]
pub enum Outcome {
    Ok(Vec<(usize, u32)>),
    Unsolvable(String),
    Cancelled,
    Panic(String),
}

thread_local! {
    static LAST_PANIC: RefCell<Option<String>> = const { RefCell::new(None) };
    static QUIET: RefCell<bool> = const { RefCell::new(false) };
}

pub fn install_quiet_hook() {
    static ONCE: std::sync::Once = std::sync::Once::new();
    ONCE.call_once(|| {
        let prev = std::panic::take_hook();
        let prev = Arc::new(Mutex::new(prev));
        std::panic::set_hook(Box::new(move |info| {
            let quiet = QUIET.with(|q| *q.borrow());
            if quiet {
                let loc = info
                    .location()
                    .map(|l| format!("{}:{}:{}", l.file(), l.line(), l.column()))
                    .unwrap_or_default();
                let msg = if let Some(s) = info.payload().downcast_ref::<&str>() {
                    s.to_string()
                } else if let Some(s) = info.payload().downcast_ref::<String>() {
                    s.clone()
                } else {
                    "<non-string payload>".to_string()
                };
                LAST_PANIC.with(|p| *p.borrow_mut() = Some(format!("{msg} @ {loc}")));
            } else {
                (prev.lock().unwrap())(info);
            }
        }));
    });
}

/// run `f`, converting a panic into Err(message @ location)
pub fn guarded<T>(f: impl FnOnce() -> T) -> Result<T, String> {
    install_quiet_hook();
    let was = QUIET.with(|q| std::mem::replace(&mut *q.borrow_mut(), true));
    let r = catch_unwind(AssertUnwindSafe(f));
    QUIET.with(|q| *q.borrow_mut() = was);
    r.map_err(|_| {
        LAST_PANIC
            .with(|p| p.borrow_mut().take())
            .unwrap_or_else(|| "<unknown>".into())
    })
}

const GRAPHVIZ_MARK: &str = "\n--graphviz--\n";

pub fn run<D: DependencyProvider>(
    prov: D,
    reqs: Vec<Requirement>,
    cons: Vec<VersionSetId>,
    decode: &Prov,
) -> Outcome {
    match guarded(|| {
        let mut solver = Solver::new(prov);
        let problem = Problem::new().requirements(reqs).constraints(cons);
        match solver.solve(problem) {
            Ok(s) => Outcome::Ok(s.iter().map(|s| decode.describe(*s)).collect()),
            Err(UnsolvableOrCancelled::Unsolvable(c)) => {
                let mut msg = c.display_user_friendly(&solver).to_string();
                let graph = c.graph(&solver);
                for simplify in [false, true] {
                    let mut buf = Vec::new();
                    graph.graphviz(&mut buf, solver.provider(), simplify).unwrap();
                    msg.push_str(GRAPHVIZ_MARK);
                    msg.push_str(&String::from_utf8_lossy(&buf));
                }
                Outcome::Unsolvable(msg)
            }
            Err(UnsolvableOrCancelled::Cancelled(_)) => Outcome::Cancelled,
        }
    }) {
        Ok(o) => o,
        Err(m) => Outcome::Panic(m),
    }
}

pub fn solve_direct(u: &Universe) -> Outcome {
    let decode = Prov::new(u);
    let p = Prov::new(u);
    let (reqs, cons) = p.problem();
    run(p, reqs, cons, &decode)
}

pub fn build_snapshot(u: &Universe) -> Result<DependencySnapshot, String> {
    guarded(|| {
        let p = Prov::new(u);
        let all_names: Vec<NameId> = (0..=u.n_names).map(|n| p.name_id(n)).collect();
        let (reqs, cons) = p.problem();
        let mut vsets: Vec<VersionSetId> = cons.clone();
        for r in &reqs {
            match r {
                Requirement::Single(v) => vsets.push(*v),
                Requirement::Union(un) => vsets.extend(p.unions[un].iter().copied()),
            }
        }
        let solvables: Vec<SolvableId> = if u.via_root {
            vec![p.root_solvable]
        } else {
            // every candidate of every package named by a root requirement
            let mut v = vec![];
            for vs in &vsets {
                let n = p.name_index(p.version_set_name(*vs));
                if let Some(c) = p.candidates_of(n) {
                    v.extend(c.candidates);
                }
            }
            v
        };
        // the version sets of the problem statement itself are always seeded: nothing else
        // would capture them (they are what the caller is going to ask for)
        let r = match u.seed_mode {
            0 => DependencySnapshot::from_provider(p, all_names, vsets, []),
            1 => DependencySnapshot::from_provider(p, [], vsets, []),
            2 => DependencySnapshot::from_provider(p, [], vsets, solvables),
            _ => DependencySnapshot::from_provider(p, all_names, vsets, solvables),
        };
        r.map_err(|_| "cancelled".to_string())
    })?
}

pub fn solve_snapshot(u: &Universe, snap: &DependencySnapshot, fix: u8) -> Outcome {
    let orig = Prov::new(u);
    let (reqs, cons) = orig.problem();
    if fix == 0 {
        run(snap.provider(), reqs, cons, &orig)
    } else {
        let fp = FixProv {
            inner: snap.provider(),
            snap,
            orig: &orig,
            fix,
        };
        run(fp, reqs, cons, &orig)
    }
}

fn sat_spec(sol: &[(usize, u32)], s: &Spec) -> bool {
    sol.iter()
        .any(|(n, v)| *n == s.name && s.lo <= *v && *v < s.hi)
}
fn sat_union(sol: &[(usize, u32)], u: &[Spec]) -> bool {
    u.iter().any(|s| sat_spec(sol, s))
}
fn violates_constraint(sol: &[(usize, u32)], c: &Spec) -> Option<(usize, u32)> {
    sol.iter()
        .copied()
        .find(|(n, v)| *n == c.name && !(c.lo <= *v && *v < c.hi))
}

/// Independent validity check of a solution against the universe.
/// Returns (hard violations, violations of locked)
pub fn validate(u: &Universe, sol: &[(usize, u32)]) -> (Vec<String>, Vec<String>) {
    let mut hard = vec![];
    let mut lock = vec![];
    if u.via_root && !sol.contains(&(u.n_names, 1)) {
        hard.push("root package not selected".to_string());
    }
    for r in &u.root_reqs {
        if !sat_union(sol, r) {
            hard.push(format!("root requirement \"{}\" unsatisfied", union_str(r)));
        }
    }
    for c in &u.root_constraints {
        if let Some((n, v)) = violates_constraint(sol, c) {
            hard.push(format!("root constraint \"{c}\" violated by {}={v}", nm(n)));
        }
    }
    for (n, v) in sol {
        if *n == u.n_names {
            continue;
        }
        if let Some(p) = u.pkgs.iter().find(|p| p.name == *n && p.version == *v) {
            if p.unknown {
                hard.push(format!("selected {}={v} whose dependencies are Unknown", nm(*n)));
            } else {
                for r in &p.deps {
                    if !sat_union(sol, r) {
                        hard.push(format!(
                            "{}={v}: requirement \"{}\" unsatisfied",
                            nm(*n),
                            union_str(r)
                        ));
                    }
                }
                for c in &p.constrains {
                    if let Some((cn, cv)) = violates_constraint(sol, c) {
                        hard.push(format!(
                            "{}={v}: constrains \"{c}\" violated by {}={cv}",
                            nm(*n),
                            nm(cn)
                        ));
                    }
                }
            }
        } else {
            hard.push(format!("selected unknown solvable {}={v}", nm(*n)));
        }
        if u.excluded.contains_key(&(*n, *v)) {
            hard.push(format!("selected excluded {}={v}", nm(*n)));
        }
        if let Some(l) = u.locked.get(n) {
            if l != v {
                lock.push(format!("selected {}={v} but locked to {l}", nm(*n)));
            }
        }
    }
    let mut seen = BTreeMap::new();
    for (n, v) in sol {
        if let Some(prev) = seen.insert(*n, *v) {
            hard.push(format!("two solvables of {}: {prev} and {v}", nm(*n)));
        }
    }
    (hard, lock)
}

// ---------------------------------------------------------------------------
// Canonical (order independent) rendering of a snapshot, to compare contents
// ---------------------------------------------------------------------------

pub fn canonical(s: &DependencySnapshot) -> String {
    let mut o = String::new();
    for (id, sv) in s.solvables.iter() {
        writeln!(
            o,
            "S{} {:?} name={:?} order={} hint={} deps={:?}",
            id.0, sv.display, sv.name, sv.order, sv.hint_dependencies_available, sv.dependencies
        )
        .unwrap();
    }
    for (id, un) in s.version_set_unions.iter() {
        let b: BTreeSet<_> = un.iter().copied().collect();
        writeln!(o, "U{} {:?}", id.0, b).unwrap();
    }
    for (id, vs) in s.version_sets.iter() {
        let b: BTreeSet<_> = vs.matching_candidates.iter().copied().collect();
        writeln!(o, "V{} {:?} name={:?} m={:?}", id.0, vs.display, vs.name, b).unwrap();
    }
    for (id, p) in s.packages.iter() {
        writeln!(
            o,
            "P{} {:?} solvables={:?} excluded={:?}",
            id.0, p.name, p.solvables, p.excluded
        )
        .unwrap();
    }
    for (id, st) in s.strings.iter() {
        writeln!(o, "T{} {:?}", id.0, st).unwrap();
    }
    o
}

// ---------------------------------------------------------------------------
// xorshift
// ---------------------------------------------------------------------------

pub struct Rng(u64);
impl Rng {
    pub fn new(seed: u64) -> Self {
        let mut r = Rng(seed.wrapping_mul(0x9E3779B97F4A7C15) ^ 0xD1B54A32D192ED03);
        if r.0 == 0 {
            r.0 = 1;
        }
        for _ in 0..4 {
            r.next();
        }
        r
    }
    pub fn next(&mut self) -> u64 {
        let mut x = self.0;
        x ^= x << 13;
        x ^= x >> 7;
        x ^= x << 17;
        self.0 = x;
        x.wrapping_mul(0x2545F4914F6CDD1D)
    }
    pub fn below(&mut self, n: u64) -> u64 {
        (self.next() >> 11) % n
    }
    pub fn range(&mut self, lo: u64, hi_incl: u64) -> u64 {
        lo + self.below(hi_incl - lo + 1)
    }
    pub fn chance(&mut self, pct: u64) -> bool {
        self.below(100) < pct
    }
}

#[derive(Clone, Copy, Debug)]
pub struct Profile {
    pub names: (u64, u64),
    pub versions: (u64, u64),
    pub max_deps: u64,
    pub max_constrains: u64,
    pub root_reqs: (u64, u64),
    pub union_pct: u64,
    pub root_constraint_pct: u64,
    pub lockfav_pct: u64, // favored / locked
    pub excluded_pct: u64,
    pub unknown_pct: u64,
    pub hints_pct: u64,
    pub full_range_pct: u64,
}

pub const PROFILES: &[Profile] = &[
    // plain: no unions, no locked/favored -> anything failing here is NOT one of the known losses
    Profile {
        names: (3, 7),
        versions: (1, 3),
        max_deps: 2,
        max_constrains: 1,
        root_reqs: (1, 3),
        union_pct: 0,
        root_constraint_pct: 10,
        lockfav_pct: 0,
        excluded_pct: 10,
        unknown_pct: 5,
        hints_pct: 30,
        full_range_pct: 50,
    },
    // unions
    Profile {
        names: (3, 7),
        versions: (1, 3),
        max_deps: 2,
        max_constrains: 1,
        root_reqs: (1, 3),
        union_pct: 40,
        root_constraint_pct: 10,
        lockfav_pct: 0,
        excluded_pct: 5,
        unknown_pct: 3,
        hints_pct: 10,
        full_range_pct: 50,
    },
    // locked / favored / excluded / unknown heavy
    Profile {
        names: (4, 8),
        versions: (2, 4),
        max_deps: 2,
        max_constrains: 2,
        root_reqs: (2, 4),
        union_pct: 5,
        root_constraint_pct: 20,
        lockfav_pct: 30,
        excluded_pct: 30,
        unknown_pct: 10,
        hints_pct: 20,
        full_range_pct: 60,
    },
    // dense, conflicts likely (messages)
    Profile {
        names: (5, 10),
        versions: (2, 3),
        max_deps: 3,
        max_constrains: 2,
        root_reqs: (3, 4),
        union_pct: 15,
        root_constraint_pct: 5,
        lockfav_pct: 0,
        excluded_pct: 5,
        unknown_pct: 5,
        hints_pct: 30,
        full_range_pct: 30,
    },
    // dense, no unions, hints: does the hint loss matter?
    Profile {
        names: (5, 10),
        versions: (2, 4),
        max_deps: 3,
        max_constrains: 2,
        root_reqs: (2, 4),
        union_pct: 0,
        root_constraint_pct: 5,
        lockfav_pct: 0,
        excluded_pct: 5,
        unknown_pct: 5,
        hints_pct: 0,
        full_range_pct: 40,
    },
];

fn gen_spec(r: &mut Rng, n_names: usize, maxv: u32, full_pct: u64, not: Option<usize>) -> Spec {
    let mut name = r.below(n_names as u64) as usize;
    if Some(name) == not {
        name = (name + 1) % n_names;
    }
    if r.chance(full_pct) {
        Spec {
            name,
            lo: 0,
            hi: 100,
        }
    } else {
        let lo = r.range(1, maxv as u64) as u32;
        let hi = r.range(lo as u64 + 1, maxv as u64 + 1) as u32;
        Spec { name, lo, hi }
    }
}

fn gen_union(r: &mut Rng, p: &Profile, n_names: usize, maxv: u32, not: Option<usize>) -> Vec<Spec> {
    let mut un = vec![gen_spec(r, n_names, maxv, p.full_range_pct, not)];
    if r.chance(p.union_pct) {
        un.push(gen_spec(r, n_names, maxv, p.full_range_pct, not));
        if r.chance(30) {
            un.push(gen_spec(r, n_names, maxv, p.full_range_pct, not));
        }
    }
    un
}

pub fn gen_universe(seed: u64) -> Universe {
    let mut r = Rng::new(seed);
    let p = PROFILES[(seed % PROFILES.len() as u64) as usize];
    let n_names = r.range(p.names.0, p.names.1) as usize;
    let maxv = p.versions.1 as u32;
    let mut u = Universe {
        n_names,
        ..Default::default()
    };
    for n in 0..n_names {
        // occasionally a name without any candidates
        if r.chance(4) {
            continue;
        }
        let nv = r.range(p.versions.0, p.versions.1) as u32;
        for v in 1..=nv {
            let mut pk = Pkg {
                name: n,
                version: v,
                ..Default::default()
            };
            if r.chance(p.unknown_pct) {
                pk.unknown = true;
            } else {
                for _ in 0..r.range(0, p.max_deps) {
                    pk.deps.push(gen_union(&mut r, &p, n_names, maxv, Some(n)));
                }
                for _ in 0..r.range(0, p.max_constrains) {
                    pk.constrains
                        .push(gen_spec(&mut r, n_names, maxv, 0, Some(n)));
                }
            }
            u.pkgs.push(pk);
        }
    }
    if u.pkgs.is_empty() {
        u.pkgs.push(Pkg {
            name: 0,
            version: 1,
            ..Default::default()
        });
    }
    for _ in 0..r.range(p.root_reqs.0, p.root_reqs.1) {
        u.root_reqs.push(gen_union(&mut r, &p, n_names, maxv, None));
    }
    if r.chance(p.root_constraint_pct) {
        u.root_constraints
            .push(gen_spec(&mut r, n_names, maxv, 0, None));
    }
    if r.chance(p.lockfav_pct) {
        let pk = &u.pkgs[r.below(u.pkgs.len() as u64) as usize];
        u.favored.insert(pk.name, pk.version);
    }
    if r.chance(p.lockfav_pct) {
        let pk = &u.pkgs[r.below(u.pkgs.len() as u64) as usize];
        u.locked.insert(pk.name, pk.version);
    }
    for _ in 0..2 {
        if r.chance(p.excluded_pct) {
            let pk = &u.pkgs[r.below(u.pkgs.len() as u64) as usize];
            let reason = r.below(3) as u8;
            u.excluded.insert((pk.name, pk.version), reason);
        }
    }
    if r.chance(p.hints_pct) {
        u.hints = r.range(1, 2) as u8;
    }
    u.order = r.below(3) as u8;
    u.salt = r.next();
    // a root requirement that is a union can only reach the snapshot through a package
    let any_root_union = u.root_reqs.iter().any(|r| r.len() > 1);
    u.via_root = any_root_union || r.chance(50);
    u.seed_mode = r.below(4) as u8;
    u.excluded_separate = r.chance(30);
    u
}

// ---------------------------------------------------------------------------
// The check
// ---------------------------------------------------------------------------

fn diff_kind(reference: &Outcome, other: &Outcome) -> Option<String> {
    if reference == other {
        return None;
    }
    Some(match (reference, other) {
        (Outcome::Ok(a), Outcome::Ok(b)) => {
            let sa: BTreeSet<_> = a.iter().collect();
            let sb: BTreeSet<_> = b.iter().collect();
            if sa == sb {
                "same solution set, different ORDER".to_string()
            } else {
                "different SOLUTION".to_string()
            }
        }
        (Outcome::Unsolvable(a), Outcome::Unsolvable(b)) => {
            if a.split(GRAPHVIZ_MARK).next() == b.split(GRAPHVIZ_MARK).next() {
                "same conflict message, different GRAPHVIZ".to_string()
            } else {
                "different conflict MESSAGE".to_string()
            }
        }
        (_, Outcome::Panic(m)) => format!("PANIC {m}"),
        (Outcome::Ok(_), Outcome::Unsolvable(_)) => "VERDICT sat -> unsat".to_string(),
        (Outcome::Unsolvable(_), Outcome::Ok(_)) => "VERDICT unsat -> sat".to_string(),
        _ => "other difference".to_string(),
    })
}

/// the smallest set of repairs under which the snapshot run equals the reference
fn attribute(u: &Universe, snap: &DependencySnapshot, reference: &Outcome) -> String {
    let mut subsets: Vec<u8> = (1..16).collect();
    subsets.sort_by_key(|s| (s.count_ones(), *s));
    for f in subsets {
        if &solve_snapshot(u, snap, f) == reference {
            return format!("[vanishes when repaired: {}]", fix_names(f));
        }
    }
    "[NOT attributable to union-order/hints/locked/favored]".to_string()
}

#[derive(Debug, Default)]
pub struct Stats {
    pub cases: u64,
    pub direct_sat: u64,
    pub direct_unsat: u64,
    pub with_union: u64,
    pub via_root: u64,
    pub seed_modes: [u64; 4],
}

/// Returns the descriptions of all failures of this universe ("kind :: details")
pub fn check(u: &Universe, stats: &mut Stats) -> Vec<String> {
    let mut out = vec![];
    stats.cases += 1;
    stats.seed_modes[u.seed_mode as usize % 4] += 1;
    if u.via_root {
        stats.via_root += 1;
    }
    if u.pkgs.iter().any(|p| p.deps.iter().any(|d| d.len() > 1))
        || u.root_reqs.iter().any(|d| d.len() > 1)
    {
        stats.with_union += 1;
    }

    // ---- direct, twice (Q4)
    let d1 = solve_direct(u);
    let d2 = solve_direct(u);
    match &d1 {
        Outcome::Ok(sol) => {
            stats.direct_sat += 1;
            let (hard, lock) = validate(u, sol);
            if !hard.is_empty() || !lock.is_empty() {
                out.push(format!(
                    "DIRECT solution invalid :: {hard:?} {lock:?} sol={sol:?}"
                ));
            }
        }
        Outcome::Unsolvable(_) => stats.direct_unsat += 1,
        Outcome::Panic(m) => out.push(format!("DIRECT PANIC {m} :: ")),
        Outcome::Cancelled => {}
    }
    if let Some(k) = diff_kind(&d1, &d2) {
        out.push(format!("Q4 DIRECT not reproducible: {k} :: {d1:?} vs {d2:?}"));
    }

    // ---- snapshot
    let snap = match build_snapshot(u) {
        Ok(s) => s,
        Err(m) => {
            out.push(format!("SNAPSHOT BUILD PANIC {m} :: "));
            return out;
        }
    };
    let r1 = solve_snapshot(u, &snap, 0);
    if let Some(k) = diff_kind(&d1, &r1) {
        let a = attribute(u, &snap, &d1);
        out.push(format!("Q1 snapshot vs provider: {k} {a} :: direct={d1:?} snapshot={r1:?}"));
    }
    if let Outcome::Ok(sol) = &r1 {
        let (hard, lock) = validate(u, sol);
        if !hard.is_empty() {
            out.push(format!(
                "Q1 snapshot solution INVALID against provider data :: {hard:?} sol={sol:?}"
            ));
        }
        if !lock.is_empty() {
            out.push(format!(
                "Q1 snapshot solution ignores LOCKED :: {lock:?} sol={sol:?}"
            ));
        }
    }
    // with every known loss repaired there must be no difference at all
    let rfull = solve_snapshot(u, &snap, 15);
    if let Some(k) = diff_kind(&d1, &rfull) {
        out.push(format!(
            "Q1 snapshot(all known losses repaired) vs provider: {k} :: direct={d1:?} snapshot={rfull:?}"
        ));
    }

    // ---- a second snapshot of the same provider (Q4)
    match build_snapshot(u) {
        Ok(snap2) => {
            let r2 = solve_snapshot(u, &snap2, 0);
            if let Some(k) = diff_kind(&r1, &r2) {
                let same_when_fixed = solve_snapshot(u, &snap, FIX_UNION)
                    == solve_snapshot(u, &snap2, FIX_UNION);
                out.push(format!(
                    "Q4 two snapshots of the same provider: {k} [equal with union order repaired: {same_when_fixed}] :: {r1:?} vs {r2:?}"
                ));
            }
            if canonical(&snap) != canonical(&snap2) {
                out.push("Q4 two snapshots differ in CONTENT :: ".to_string());
            }
            let (j1, j2) = (
                serde_json::to_string(&snap).unwrap_or_default(),
                serde_json::to_string(&snap2).unwrap_or_default(),
            );
            if j1 != j2 {
                out.push("Q4 two snapshots of the same provider serialize to different JSON :: ".to_string());
            }
        }
        Err(m) => out.push(format!("SNAPSHOT BUILD PANIC (2nd) {m} :: ")),
    }

    // ---- serde round trip
    match guarded(|| {
        let json = serde_json::to_string(&snap).map_err(|e| e.to_string())?;
        let back: DependencySnapshot = serde_json::from_str(&json).map_err(|e| e.to_string())?;
        Ok::<_, String>(back)
    }) {
        Err(m) => out.push(format!("SERDE PANIC {m} :: ")),
        Ok(Err(e)) => out.push(format!("SERDE ERROR {e} :: ")),
        Ok(Ok(back)) => {
            let (a, b) = (canonical(&snap), canonical(&back));
            if a != b {
                out.push(format!("SERDE round trip changes CONTENT :: before:\n{a}\nafter:\n{b}"));
            }
            let r3 = solve_snapshot(u, &back, 0);
            if let Some(k) = diff_kind(&r1, &r3) {
                let same_when_fixed = solve_snapshot(u, &snap, FIX_UNION)
                    == solve_snapshot(u, &back, FIX_UNION);
                out.push(format!(
                    "SERDE round trip changes the result: {k} [equal with union order repaired: {same_when_fixed}] :: {r1:?} vs {r3:?}"
                ));
            }
            let r3f = solve_snapshot(u, &back, 15);
            if let Some(k) = diff_kind(&d1, &r3f) {
                out.push(format!(
                    "SERDE snapshot(all known losses repaired) vs provider: {k} :: {d1:?} vs {r3f:?}"
                ));
            }
        }
    }

    // ---- add_package_requirement
    out.extend(check_add_requirement(u, &snap));
    out
}

/// `add_package_requirement` never aliases a captured version set; requiring `*` of a package
/// through the snapshot behaves as requiring the full range through the provider.
fn check_add_requirement(u: &Universe, snap: &DependencySnapshot) -> Vec<String> {
    let mut out = vec![];
    let r = guarded(|| {
        let mut out = vec![];
        let orig = Prov::new(u);
        let mut sp = snap.provider();
        let mut fresh = BTreeSet::new();
        let names: Vec<NameId> = snap.packages.iter().map(|(n, _)| n).collect();
        let mut added = vec![];
        for (i, &n) in names.iter().enumerate() {
            let matcher = if i % 2 == 0 { "*".to_string() } else { "=2".to_string() };
            let id = sp.add_package_requirement(n, &matcher);
            if snap.version_sets.get(id).is_some() {
                out.push(format!(
                    "add_package_requirement ALIASES captured version set :: id {id:?}"
                ));
            }
            if !fresh.insert(id) {
                out.push(format!("add_package_requirement returned id twice :: id {id:?}"));
            }
            added.push((id, n, matcher));
        }
        for (id, n, matcher) in &added {
            if sp.display_version_set(*id).to_string() != *matcher {
                out.push(format!(
                    "add_package_requirement: display of new id wrong :: id {id:?} {} != {matcher}",
                    sp.display_version_set(*id)
                ));
            }
            if sp.version_set_name(*id) != *n {
                out.push(format!("add_package_requirement: name of new id wrong :: id {id:?}"));
            }
        }
        // captured version sets still resolve to themselves
        for (id, vs) in snap.version_sets.iter() {
            if sp.display_version_set(id).to_string() != vs.display
                || sp.version_set_name(id) != vs.name
            {
                out.push(format!(
                    "captured version set shadowed after add_package_requirement :: {id:?}"
                ));
            }
        }
        // solve `name *` for the first real package
        if let Some((id, n, _)) = added
            .iter()
            .find(|(_, n, m)| m == "*" && orig.name_index(*n) < u.n_names)
        {
            let ni = orig.name_index(*n);
            let mut u2 = u.clone();
            u2.via_root = false;
            u2.root_reqs = vec![vec![Spec { name: ni, lo: 0, hi: 100 }]];
            u2.root_constraints.clear();
            let d = solve_direct(&u2);
            let s = run(sp, vec![(*id).into()], vec![], &orig);
            if let Some(k) = diff_kind(&d, &s) {
                // the message necessarily differs in the rendering of the range ("0..100" vs "*")
                let norm = |o: &Outcome| match o {
                    Outcome::Unsolvable(m) => Outcome::Unsolvable(m.replace("0..100", "*")),
                    o => o.clone(),
                };
                if norm(&d) != norm(&s) {
                    // the same with every known loss repaired
                    let mut sp2 = snap.provider();
                    let mut id2 = None;
                    for (i2, n2, m2) in &added {
                        let x = sp2.add_package_requirement(*n2, m2);
                        if i2 == id {
                            id2 = Some(x);
                        }
                    }
                    let fp = FixProv { inner: sp2, snap, orig: &orig, fix: 15 };
                    let s2 = run(fp, vec![id2.unwrap().into()], vec![], &orig);
                    let tag = if norm(&s2) == norm(&d) {
                        "[vanishes when all known losses are repaired]"
                    } else {
                        "[NOT attributable to union-order/hints/locked/favored]"
                    };
                    out.push(format!(
                        "add_package_requirement(*) vs provider: {k} {tag} :: name {} direct={d:?} snapshot={s:?}",
                        nm(ni)
                    ));
                }
            }
        }
        out
    });
    match r {
        Ok(v) => out.extend(v),
        Err(m) => out.push(format!("add_package_requirement PANIC {m} :: ")),
    }
    out
}

fn kind_of(f: &str) -> String {
    f.split(" :: ").next().unwrap_or(f).to_string()
}

fn env_u64(k: &str, d: u64) -> u64 {
    std::env::var(k).ok().and_then(|s| s.parse().ok()).unwrap_or(d)
}

#[test]
fn random_search() {
    let cases = env_u64("HUNT_CASES", 300);
    let seed0 = env_u64("HUNT_SEED", 1);
    let max_report = env_u64("HUNT_REPORT", 0) as usize;
    let mut stats = Stats::default();
    let mut kinds: BTreeMap<String, (u64, u64, usize)> = BTreeMap::new();
    let mut reported = 0;
    for seed in seed0..seed0 + cases {
        let u = gen_universe(seed);
        for f in check(&u, &mut stats) {
            let key = kind_of(&f);
            let size = u.pkgs.len();
            let e = kinds.entry(key).or_insert((0, seed, size));
            e.0 += 1;
            if size < e.2 {
                e.1 = seed;
                e.2 = size;
            }
            if let Ok(k) = std::env::var("HUNT_KIND_PRINT") {
                if f.starts_with(&k) {
                    println!("KINDSEED {seed} size {size} order {}", u.order);
                }
            }
            if reported < max_report {
                reported += 1;
                println!("=== FAILURE seed={seed}: {f}\n{}", u.dump());
            }
        }
    }
    println!("{stats:#?}");
    for (k, (n, seed, size)) in &kinds {
        println!("{n:6} x {k}   (smallest: seed {seed}, {size} solvables)");
    }
    if std::env::var("HUNT_ASSERT").is_ok() {
        assert!(kinds.is_empty());
    }
}

#[test]
fn show_seed() {
    let Some(seed) = std::env::var("HUNT_SHOW").ok().and_then(|s| s.parse().ok()) else {
        return;
    };
    let u = gen_universe(seed);
    println!("{}", u.dump());
    let mut st = Stats::default();
    for f in check(&u, &mut st) {
        println!("FAILURE: {f}");
    }
}

/// Prints one line per seed with the direct outcome; run in several processes and diff (Q4).
#[test]
fn digest() {
    let Some(n) = std::env::var("HUNT_DIGEST").ok().and_then(|s| s.parse::<u64>().ok()) else {
        return;
    };
    let seed0 = env_u64("HUNT_SEED", 1);
    let with_snapshot = std::env::var("HUNT_DIGEST_SNAPSHOT").is_ok();
    for seed in seed0..seed0 + n {
        let u = gen_universe(seed);
        let d = solve_direct(&u);
        let mut line = format!("DIGEST {seed} direct {d:?}");
        if with_snapshot {
            if let Ok(s) = build_snapshot(&u) {
                write!(line, " snapshot {:?}", solve_snapshot(&u, &s, 0)).unwrap();
            }
        }
        println!("{}", line.replace('\n', "\\n"));
    }
}

// ---------------------------------------------------------------------------
// Shrinker (greedy delta debugging on the universe description)
// ---------------------------------------------------------------------------

fn has_kind(u: &Universe, kind_prefix: &str) -> bool {
    let mut st = Stats::default();
    // non-deterministic failures: try a few times
    for _ in 0..env_u64("HUNT_TRIES", 4) {
        if check(u, &mut st)
            .iter()
            .any(|f| kind_of(f).starts_with(kind_prefix))
        {
            return true;
        }
    }
    false
}

fn candidates(u: &Universe) -> Vec<Universe> {
    let mut out = vec![];
    for i in 0..u.pkgs.len() {
        let mut c = u.clone();
        c.pkgs.remove(i);
        out.push(c);
    }
    for i in 0..u.root_reqs.len() {
        let mut c = u.clone();
        c.root_reqs.remove(i);
        out.push(c);
        if u.root_reqs[i].len() > 1 {
            for j in 0..u.root_reqs[i].len() {
                let mut c = u.clone();
                c.root_reqs[i].remove(j);
                out.push(c);
            }
        }
    }
    for i in 0..u.root_constraints.len() {
        let mut c = u.clone();
        c.root_constraints.remove(i);
        out.push(c);
    }
    for i in 0..u.pkgs.len() {
        if u.pkgs[i].unknown {
            let mut c = u.clone();
            c.pkgs[i].unknown = false;
            out.push(c);
        }
        for j in 0..u.pkgs[i].deps.len() {
            let mut c = u.clone();
            c.pkgs[i].deps.remove(j);
            out.push(c);
            if u.pkgs[i].deps[j].len() > 1 {
                for k in 0..u.pkgs[i].deps[j].len() {
                    let mut c = u.clone();
                    c.pkgs[i].deps[j].remove(k);
                    out.push(c);
                }
            }
        }
        for j in 0..u.pkgs[i].constrains.len() {
            let mut c = u.clone();
            c.pkgs[i].constrains.remove(j);
            out.push(c);
        }
    }
    if !u.favored.is_empty() {
        let mut c = u.clone();
        c.favored.clear();
        out.push(c);
    }
    if !u.locked.is_empty() {
        let mut c = u.clone();
        c.locked.clear();
        out.push(c);
    }
    for k in u.excluded.keys() {
        let mut c = u.clone();
        c.excluded.remove(k);
        out.push(c);
    }
    if u.hints != 0 {
        let mut c = u.clone();
        c.hints = 0;
        out.push(c);
    }
    if u.order != 0 {
        let mut c = u.clone();
        c.order = 0;
        out.push(c);
    }
    if u.excluded_separate {
        let mut c = u.clone();
        c.excluded_separate = false;
        out.push(c);
    }
    if u.seed_mode != 0 {
        let mut c = u.clone();
        c.seed_mode = 0;
        out.push(c);
    }
    if u.via_root && !u.root_reqs.iter().any(|r| r.len() > 1) {
        let mut c = u.clone();
        c.via_root = false;
        out.push(c);
    }
    // widen ranges to "any"
    for i in 0..u.pkgs.len() {
        for j in 0..u.pkgs[i].deps.len() {
            for k in 0..u.pkgs[i].deps[j].len() {
                let s = &u.pkgs[i].deps[j][k];
                if (s.lo, s.hi) != (0, 100) {
                    let mut c = u.clone();
                    c.pkgs[i].deps[j][k].lo = 0;
                    c.pkgs[i].deps[j][k].hi = 100;
                    out.push(c);
                }
            }
        }
    }
    for i in 0..u.root_reqs.len() {
        for k in 0..u.root_reqs[i].len() {
            let s = &u.root_reqs[i][k];
            if (s.lo, s.hi) != (0, 100) {
                let mut c = u.clone();
                c.root_reqs[i][k].lo = 0;
                c.root_reqs[i][k].hi = 100;
                out.push(c);
            }
        }
    }
    out
}

pub fn shrink(mut u: Universe, kind_prefix: &str) -> Universe {
    assert!(has_kind(&u, kind_prefix), "seed does not fail with that kind");
    loop {
        let mut progressed = false;
        for c in candidates(&u) {
            if has_kind(&c, kind_prefix) {
                u = c;
                progressed = true;
                break;
            }
        }
        if !progressed {
            return u;
        }
    }
}

#[test]
fn shrink_seed() {
    let Some(seed) = std::env::var("HUNT_SHRINK")
        .ok()
        .and_then(|s| s.parse::<u64>().ok())
    else {
        return;
    };
    let kind = std::env::var("HUNT_KIND").unwrap_or_default();
    let u = gen_universe(seed);
    println!("original ({} solvables)", u.pkgs.len());
    let s = shrink(u, &kind);
    println!("shrunk ({} solvables):\n{}", s.pkgs.len(), s.dump());
    let mut st = Stats::default();
    for f in check(&s, &mut st) {
        println!("FAILURE: {f}");
    }
}

// ---------------------------------------------------------------------------
// (Q2) Mapping against a BTreeMap reference
// ---------------------------------------------------------------------------

fn mapping_case(seed: u64, small: bool) -> Result<(), String> {
    let mut r = Rng::new(seed);
    let mut m: Mapping<NameId, u64> = match r.below(3) {
        0 => Mapping::default(),
        1 => Mapping::with_capacity(0),
        _ => Mapping::with_capacity(r.below(600) as usize),
    };
    let mut reference: BTreeMap<u32, u64> = BTreeMap::new();
    let interesting: &[u32] = if small {
        &[0u32, 1, 126, 127, 128, 129, 255, 256, 257]
    } else {
        &[0u32, 1, 126, 127, 128, 129, 255, 256, 257, 383, 384, 1000, 5000, 20000]
    };
    let pick = |r: &mut Rng| -> u32 {
        match r.below(4) {
            0 => interesting[r.below(interesting.len() as u64) as usize],
            1 => r.below(8) as u32,
            2 => r.below(300) as u32,
            _ if small => r.below(300) as u32,
            _ => r.below(3000) as u32,
        }
    };
    let n_ops = if small { r.range(1, 25) } else { r.range(1, 120) };
    for step in 0..n_ops {
        let id = pick(&mut r);
        match r.below(6) {
            0 | 1 => {
                let v = r.next();
                let a = m.insert(NameId(id), v);
                let b = reference.insert(id, v);
                if a != b {
                    return Err(format!("step {step}: insert({id}) returned {a:?}, reference {b:?}"));
                }
            }
            2 => {
                let a = m.unset(NameId(id));
                let b = reference.remove(&id);
                if a != b {
                    return Err(format!("step {step}: unset({id}) returned {a:?}, reference {b:?}"));
                }
            }
            3 => {
                let a = m.get(NameId(id)).copied();
                let b = reference.get(&id).copied();
                if a != b {
                    return Err(format!("step {step}: get({id}) = {a:?}, reference {b:?}"));
                }
            }
            4 => {
                let v = r.next();
                let a = m.get_mut(NameId(id)).map(|x| {
                    *x = v;
                });
                let b = reference.get_mut(&id).map(|x| {
                    *x = v;
                });
                if a != b {
                    return Err(format!("step {step}: get_mut({id}) = {a:?}, reference {b:?}"));
                }
            }
            _ => {}
        }
        if m.len() != reference.len() {
            return Err(format!("step {step}: len {} != {}", m.len(), reference.len()));
        }
        if m.is_empty() != reference.is_empty() {
            return Err(format!("step {step}: is_empty {}", m.is_empty()));
        }
        let a: Vec<(u32, u64)> = m.iter().map(|(k, v)| (k.0, *v)).collect();
        let b: Vec<(u32, u64)> = reference.iter().map(|(k, v)| (*k, *v)).collect();
        if a != b {
            return Err(format!("step {step}: iter {a:?} != reference {b:?}"));
        }
        // fused
        let mut it = m.iter();
        for _ in it.by_ref() {}
        if it.next().is_some() || it.next().is_some() {
            return Err(format!("step {step}: iterator not fused"));
        }
        if step % 7 == 0 {
            let c = m.clone();
            let a2: Vec<(u32, u64)> = c.iter().map(|(k, v)| (k.0, *v)).collect();
            if a2 != b || c.len() != reference.len() {
                return Err(format!("step {step}: clone differs"));
            }
            let json = serde_json::to_string(&m).map_err(|e| e.to_string())?;
            let back: Mapping<NameId, u64> = serde_json::from_str(&json).map_err(|e| e.to_string())?;
            let a3: Vec<(u32, u64)> = back.iter().map(|(k, v)| (k.0, *v)).collect();
            if a3 != b {
                return Err(format!("step {step}: serde round trip iter {a3:?} != {b:?} (json {json})"));
            }
            if back.len() != reference.len() || back.is_empty() != reference.is_empty() {
                return Err(format!(
                    "step {step}: serde round trip len {} != {} (json {json})",
                    back.len(),
                    reference.len()
                ));
            }
            for id in interesting.iter().copied().chain(reference.keys().copied()) {
                if back.get(NameId(id)).copied() != reference.get(&id).copied() {
                    return Err(format!("step {step}: serde round trip get({id}) differs"));
                }
            }
        }
    }
    Ok(())
}

#[test]
fn mapping_random() {
    let cases = env_u64("HUNT_MAPPING_CASES", 3000);
    let seed0 = env_u64("HUNT_SEED", 1);
    let mut fails = 0;
    for seed in seed0..seed0 + cases {
        match guarded(|| mapping_case(seed, false)) {
            Ok(Ok(())) => {}
            Ok(Err(e)) => {
                fails += 1;
                if fails <= 5 {
                    println!("MAPPING FAILURE seed {seed}: {e}");
                }
            }
            Err(p) => {
                fails += 1;
                if fails <= 5 {
                    println!("MAPPING PANIC seed {seed}: {p}");
                }
            }
        }
    }
    println!("mapping: {cases} cases, {fails} failures");
    assert_eq!(fails, 0);
}

/// values whose serde representation is `null` (unit, None) vanish in the round trip
#[test]
fn mapping_serde_null_values() {
    let mut m: Mapping<NameId, Option<u32>> = Mapping::default();
    m.insert(NameId(0), Some(7));
    m.insert(NameId(1), None);
    m.insert(NameId(2), Some(9));
    let json = serde_json::to_string(&m).unwrap();
    let back: Mapping<NameId, Option<u32>> = serde_json::from_str(&json).unwrap();
    println!("json {json}: len before {} after {}", m.len(), back.len());
    let mut u: Mapping<NameId, ()> = Mapping::default();
    u.insert(NameId(0), ());
    u.insert(NameId(3), ());
    let json = serde_json::to_string(&u).unwrap();
    let backu: Mapping<NameId, ()> = serde_json::from_str(&json).unwrap();
    println!("json {json}: len before {} after {}", u.len(), backu.len());
    if std::env::var("HUNT_ASSERT").is_ok() {
        assert_eq!(back.len(), m.len());
        assert_eq!(backu.len(), u.len());
    }
}

// ---------------------------------------------------------------------------
// (Q3) Pool
// ---------------------------------------------------------------------------

fn pool_case(seed: u64, n_ops: u64) -> Result<(), String> {
    let mut r = Rng::new(seed);
    let pool: Pool<R, String> = Pool::new();
    let mut names: BTreeMap<String, NameId> = BTreeMap::new();
    let mut strings: BTreeMap<String, StringId> = BTreeMap::new();
    let mut vsets: BTreeMap<(u32, u32, u32), VersionSetId> = BTreeMap::new();
    let mut unions: Vec<(VersionSetUnionId, Vec<VersionSetId>)> = vec![];
    let mut solvables: Vec<(SolvableId, NameId, u32)> = vec![];
    // references handed out early, with the value they must keep showing
    let mut held_names: Vec<(&String, String)> = vec![];
    let mut held_strs: Vec<(&str, String)> = vec![];
    let mut held_vs: Vec<(&R, R)> = vec![];
    let mut held_sol: Vec<(&u32, u32)> = vec![];
    let space = r.range(2, 400);
    for step in 0..n_ops {
        match r.below(5) {
            0 => {
                let s = format!("name-{}", r.below(space));
                let id = pool.intern_package_name(s.clone());
                let fresh = names.len();
                match names.get(&s) {
                    Some(prev) if *prev != id => {
                        return Err(format!("step {step}: name {s} interned twice: {prev:?} then {id:?}"));
                    }
                    Some(_) => {}
                    None => {
                        if id.0 as usize != fresh {
                            return Err(format!("step {step}: name id {id:?} not dense (expected {fresh})"));
                        }
                        names.insert(s.clone(), id);
                        if held_names.len() < 50 {
                            held_names.push((pool.resolve_package_name(id), s.clone()));
                        }
                    }
                }
                if pool.resolve_package_name(id) != &s {
                    return Err(format!("step {step}: resolve_package_name({id:?}) != {s}"));
                }
                if pool.lookup_package_name(&s) != Some(id) {
                    return Err(format!("step {step}: lookup_package_name({s}) != {id:?}"));
                }
                if pool.lookup_package_name(&format!("absent-{s}")).is_some() {
                    return Err(format!("step {step}: lookup of absent name succeeded"));
                }
            }
            1 => {
                let s = format!("string {}", r.below(space));
                let id = if r.chance(50) {
                    pool.intern_string(s.clone())
                } else {
                    pool.intern_string(s.as_str())
                };
                let fresh = strings.len();
                match strings.get(&s) {
                    Some(prev) if *prev != id => {
                        return Err(format!("step {step}: string {s} interned twice: {prev:?} then {id:?}"));
                    }
                    Some(_) => {}
                    None => {
                        if id.0 as usize != fresh {
                            return Err(format!("step {step}: string id {id:?} not dense (expected {fresh})"));
                        }
                        strings.insert(s.clone(), id);
                        if held_strs.len() < 50 {
                            held_strs.push((pool.resolve_string(id), s.clone()));
                        }
                    }
                }
                if pool.resolve_string(id) != s {
                    return Err(format!("step {step}: resolve_string({id:?}) != {s}"));
                }
            }
            2 => {
                if names.is_empty() {
                    continue;
                }
                let n = NameId(r.below(names.len() as u64) as u32);
                let key = (n.0, r.below(6) as u32, r.below(6) as u32);
                let id = pool.intern_version_set(n, R(key.1, key.2));
                let fresh = vsets.len();
                match vsets.get(&key) {
                    Some(prev) if *prev != id => {
                        return Err(format!("step {step}: version set {key:?} interned twice: {prev:?} then {id:?}"));
                    }
                    Some(_) => {}
                    None => {
                        if id.0 as usize != fresh {
                            return Err(format!("step {step}: version set id {id:?} not dense (expected {fresh})"));
                        }
                        vsets.insert(key, id);
                        if held_vs.len() < 50 {
                            held_vs.push((pool.resolve_version_set(id), R(key.1, key.2)));
                        }
                    }
                }
                if pool.resolve_version_set(id) != &R(key.1, key.2)
                    || pool.resolve_version_set_package_name(id) != n
                {
                    return Err(format!("step {step}: resolve_version_set({id:?}) wrong"));
                }
            }
            3 => {
                if vsets.is_empty() {
                    continue;
                }
                let k = r.range(1, 6);
                let all: Vec<VersionSetId> = vsets.values().copied().collect();
                let members: Vec<VersionSetId> = (0..k)
                    .map(|_| all[r.below(all.len() as u64) as usize])
                    .collect();
                let id = pool.intern_version_set_union(members[0], members[1..].iter().copied());
                if id.0 as usize != unions.len() {
                    return Err(format!("step {step}: union id {id:?} not dense"));
                }
                unions.push((id, members));
            }
            _ => {
                if names.is_empty() {
                    continue;
                }
                let n = NameId(r.below(names.len() as u64) as u32);
                let v = r.below(1000) as u32;
                let id = pool.intern_solvable(n, v);
                if id.0 as usize != solvables.len() {
                    return Err(format!("step {step}: solvable id {id:?} not dense"));
                }
                solvables.push((id, n, v));
                if held_sol.len() < 50 {
                    held_sol.push((&pool.resolve_solvable(id).record, v));
                }
            }
        }
    }
    // everything resolves to what was interned
    for (s, id) in &names {
        if pool.resolve_package_name(*id) != s || pool.intern_package_name(s.clone()) != *id {
            return Err(format!("final: name {s} / {id:?}"));
        }
    }
    for (s, id) in &strings {
        if pool.resolve_string(*id) != s || pool.intern_string(s.as_str()) != *id {
            return Err(format!("final: string {s} / {id:?}"));
        }
    }
    for (k, id) in &vsets {
        if pool.resolve_version_set(*id) != &R(k.1, k.2)
            || pool.resolve_version_set_package_name(*id) != NameId(k.0)
            || pool.intern_version_set(NameId(k.0), R(k.1, k.2)) != *id
        {
            return Err(format!("final: version set {k:?} / {id:?}"));
        }
    }
    for (id, members) in &unions {
        let got: Vec<VersionSetId> = pool.resolve_version_set_union(*id).collect();
        if &got != members {
            return Err(format!("final: union {id:?}: {got:?} != {members:?}"));
        }
    }
    for (id, n, v) in &solvables {
        let s = pool.resolve_solvable(*id);
        if s.name != *n || s.record != *v {
            return Err(format!("final: solvable {id:?}"));
        }
    }
    // different values -> different ids
    let ids: BTreeSet<_> = names.values().collect();
    if ids.len() != names.len() {
        return Err("final: two names share an id".into());
    }
    let ids: BTreeSet<_> = strings.values().collect();
    if ids.len() != strings.len() {
        return Err("final: two strings share an id".into());
    }
    let ids: BTreeSet<_> = vsets.values().collect();
    if ids.len() != vsets.len() {
        return Err("final: two version sets share an id".into());
    }
    // references obtained early are still valid
    for (r, v) in &held_names {
        if *r != v {
            return Err(format!("held name reference changed: {r} != {v}"));
        }
    }
    for (r, v) in &held_strs {
        if *r != v {
            return Err(format!("held string reference changed: {r} != {v}"));
        }
    }
    for (r, v) in &held_vs {
        if *r != v {
            return Err(format!("held version set reference changed: {r:?} != {v:?}"));
        }
    }
    for (r, v) in &held_sol {
        if *r != v {
            return Err(format!("held solvable reference changed: {r:?} != {v:?}"));
        }
    }
    Ok(())
}

#[test]
fn pool_random() {
    let cases = env_u64("HUNT_POOL_CASES", 200);
    let ops = env_u64("HUNT_POOL_OPS", 5000);
    let seed0 = env_u64("HUNT_SEED", 1);
    let mut fails = 0;
    for seed in seed0..seed0 + cases {
        match guarded(|| pool_case(seed, ops)) {
            Ok(Ok(())) => {}
            Ok(Err(e)) => {
                fails += 1;
                println!("POOL FAILURE seed {seed}: {e}");
            }
            Err(p) => {
                fails += 1;
                println!("POOL PANIC seed {seed}: {p}");
            }
        }
    }
    println!("pool: {cases} cases x {ops} ops, {fails} failures");
    assert_eq!(fails, 0);
}

/// small enough for miri
#[test]
fn pool_miri() {
    for seed in 1..=2 {
        pool_case(seed, 400).unwrap();
    }
}

#[test]
fn mapping_miri() {
    for seed in 1..=6 {
        mapping_case(seed, true).unwrap();
    }
}

/// crosses the 128-element chunk border of every arena of the pool while references to early
/// elements are alive (for miri)
#[test]
fn pool_miri_chunks() {
    let pool: Pool<R, String> = Pool::new();
    let n0 = pool.intern_package_name("first".to_string());
    let s0 = pool.intern_string("first string");
    let v0 = pool.intern_version_set(n0, R(0, 1));
    let u0 = pool.intern_version_set_union(v0, [v0, v0].into_iter());
    let x0 = pool.intern_solvable(n0, 42);
    let (rn, rs, rv, rx) = (
        pool.resolve_package_name(n0),
        pool.resolve_string(s0),
        pool.resolve_version_set(v0),
        &pool.resolve_solvable(x0).record,
    );
    let ru: Vec<VersionSetId> = pool.resolve_version_set_union(u0).collect();
    for i in 0..300u32 {
        let n = pool.intern_package_name(format!("n{i}"));
        assert_eq!(n.0, i + 1);
        assert_eq!(pool.intern_package_name(format!("n{i}")), n);
        let s = pool.intern_string(format!("s{i}"));
        assert_eq!(s.0, i + 1);
        let v = pool.intern_version_set(n, R(i, i + 1));
        assert_eq!(v.0, i + 1);
        assert_eq!(pool.intern_version_set(n, R(i, i + 1)), v);
        let u = pool.intern_version_set_union(v, [v0].into_iter());
        assert_eq!(u.0, i + 1);
        let x = pool.intern_solvable(n, i);
        assert_eq!(x.0, i + 1);
        assert_eq!(rn, "first");
        assert_eq!(rs, "first string");
        assert_eq!(rv, &R(0, 1));
        assert_eq!(*rx, 42);
    }
    assert_eq!(ru, [v0, v0, v0]);
    assert_eq!(pool.resolve_version_set_union(u0).collect::<Vec<_>>(), ru);
    for i in 0..300u32 {
        assert_eq!(pool.resolve_package_name(NameId(i + 1)), &format!("n{i}"));
        assert_eq!(pool.resolve_string(StringId(i + 1)), format!("s{i}"));
        assert_eq!(pool.resolve_version_set(VersionSetId(i + 1)), &R(i, i + 1));
        assert_eq!(
            pool.resolve_version_set_union(VersionSetUnionId(i + 1)).collect::<Vec<_>>(),
            [VersionSetId(i + 1), v0]
        );
        assert_eq!(pool.resolve_solvable(SolvableId(i + 1)).record, i);
    }
}

/// a tiny snapshot build + solve + serde round trip (for miri)
#[test]
fn snapshot_miri() {
    let u = gen_universe(526);
    let snap = build_snapshot(&u).unwrap();
    let _ = solve_snapshot(&u, &snap, 0);
    let json = serde_json::to_string(&snap).unwrap();
    let back: DependencySnapshot = serde_json::from_str(&json).unwrap();
    assert_eq!(canonical(&snap), canonical(&back));
    let _ = solve_snapshot(&u, &back, 0);
}
