//! Repro (minor, Q2): the serde round trip of `resolvo::Mapping<K, V>` loses every entry whose
//! VALUE serializes as `null` (e.g. `V = Option<T>` with `None`, or `V = ()`).
//!
//! `Serialize` writes the slots as a sequence of `Option<V>` (src/internal/mapping.rs:223-230),
//! so a vacant slot and an occupied slot holding such a value are both written as `null`;
//! `Deserialize` reads `Vec<Option<V>>` and re-inserts only the `Some` ones
//! (src/internal/mapping.rs:239-246).  `len()`, `get()` and `iter()` differ afterwards.
//! No `Mapping` inside resolvo itself has such a value type (the snapshot uses structs, Strings
//! and sets), so this only concerns users of the public type `resolvo::Mapping`.
use resolvo::{Mapping, NameId};

#[test]
fn option_values_survive_the_round_trip() {
    let mut m: Mapping<NameId, Option<u32>> = Mapping::default();
    m.insert(NameId(0), Some(7));
    m.insert(NameId(1), None);
    m.insert(NameId(2), Some(9));
    let json = serde_json::to_string(&m).unwrap();
    assert_eq!(json, "[7,null,9]");
    let back: Mapping<NameId, Option<u32>> = serde_json::from_str(&json).unwrap();
    let before: Vec<(NameId, Option<u32>)> = m.iter().map(|(k, v)| (k, *v)).collect();
    let after: Vec<(NameId, Option<u32>)> = back.iter().map(|(k, v)| (k, *v)).collect();
    assert_eq!(before, after);
    assert_eq!(m.len(), back.len());
}

#[test]
fn unit_values_survive_the_round_trip() {
    // a Mapping used as a set of ids
    let mut m: Mapping<NameId, ()> = Mapping::default();
    m.insert(NameId(0), ());
    m.insert(NameId(3), ());
    let json = serde_json::to_string(&m).unwrap();
    let back: Mapping<NameId, ()> = serde_json::from_str(&json).unwrap();
    assert_eq!(
        m.iter().map(|(k, _)| k).collect::<Vec<_>>(),
        back.iter().map(|(k, _)| k).collect::<Vec<_>>(),
        "json: {json}"
    );
}
