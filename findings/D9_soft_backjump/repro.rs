//! Minimal reproduction: a soft requirement turns a trivially solvable problem into a panic
//! (`already decided`, `.expect` in `Solver::run_sat`, src/solver/mod.rs:432).
//!
//! Self-contained: own tiny `DependencyProvider` (string names, integer versions, half-open
//! version ranges `lo..hi`, requirement unions written `a | b`).
//!
//!   cargo test --offline --test repro
use std::{any::Any, cell::RefCell, collections::HashMap, fmt::Display};

use resolvo::{
    Candidates, Dependencies, DependencyProvider, Interner, KnownDependencies, NameId, Problem,
    Requirement, SolvableId, Solver, SolverCache, StringId, VersionSetId, VersionSetUnionId,
    utils::{Pool, VersionSet},
};

/// version range `lo..hi` (half open)
#[derive(Clone, Debug, PartialEq, Eq, Hash)]
struct Range(u32, u32);
impl VersionSet for Range {
    type V = u32;
}
impl Display for Range {
    fn fmt(&self, f: &mut std::fmt::Formatter<'_>) -> std::fmt::Result {
        write!(f, "{}..{}", self.0, self.1)
    }
}

/// (name, version, requirements, constrains)
type Package = (&'static str, u32, &'static [&'static str], &'static [&'static str]);

struct Provider {
    pool: Pool<Range, String>,
    packages: Vec<Package>,
    solvables: RefCell<HashMap<(String, u32), SolvableId>>,
}

impl Provider {
    fn new(packages: &[Package]) -> Self {
        Provider {
            pool: Pool::new(),
            packages: packages.to_vec(),
            solvables: Default::default(),
        }
    }

    fn solvable(&self, name: &str, version: u32) -> SolvableId {
        *self
            .solvables
            .borrow_mut()
            .entry((name.to_string(), version))
            .or_insert_with(|| {
                let name_id = self.pool.intern_package_name(name.to_string());
                self.pool.intern_solvable(name_id, version)
            })
    }

    /// "name" (any version) or "name lo..hi"
    fn version_set(&self, spec: &str) -> VersionSetId {
        let mut parts = spec.split_whitespace();
        let name = self.pool.intern_package_name(parts.next().unwrap().to_string());
        let range = match parts.next() {
            None => Range(0, u32::MAX),
            Some(r) => {
                let (lo, hi) = r.split_once("..").unwrap();
                Range(lo.parse().unwrap(), hi.parse().unwrap())
            }
        };
        self.pool.intern_version_set(name, range)
    }

    /// "spec" or "spec | spec | ..."
    fn requirement(&self, req: &str) -> Requirement {
        let mut sets = req.split('|').map(|s| self.version_set(s.trim()));
        let first = sets.next().unwrap();
        let rest: Vec<_> = sets.collect();
        if rest.is_empty() {
            first.into()
        } else {
            self.pool
                .intern_version_set_union(first, rest.into_iter())
                .into()
        }
    }

    fn describe(&self, s: SolvableId) -> (String, u32) {
        let s = self.pool.resolve_solvable(s);
        (self.pool.resolve_package_name(s.name).clone(), s.record)
    }
}

impl Interner for Provider {
    fn display_solvable(&self, solvable: SolvableId) -> impl Display + '_ {
        let (n, v) = self.describe(solvable);
        format!("{n}={v}")
    }
    fn display_name(&self, name: NameId) -> impl Display + '_ {
        self.pool.resolve_package_name(name).clone()
    }
    fn display_version_set(&self, version_set: VersionSetId) -> impl Display + '_ {
        self.pool.resolve_version_set(version_set).clone()
    }
    fn display_string(&self, string_id: StringId) -> impl Display + '_ {
        self.pool.resolve_string(string_id).to_owned()
    }
    fn version_set_name(&self, version_set: VersionSetId) -> NameId {
        self.pool.resolve_version_set_package_name(version_set)
    }
    fn solvable_name(&self, solvable: SolvableId) -> NameId {
        self.pool.resolve_solvable(solvable).name
    }
    fn version_sets_in_union(
        &self,
        version_set_union: VersionSetUnionId,
    ) -> impl Iterator<Item = VersionSetId> {
        self.pool.resolve_version_set_union(version_set_union)
    }
}

impl DependencyProvider for Provider {
    async fn filter_candidates(
        &self,
        candidates: &[SolvableId],
        version_set: VersionSetId,
        inverse: bool,
    ) -> Vec<SolvableId> {
        let Range(lo, hi) = *self.pool.resolve_version_set(version_set);
        candidates
            .iter()
            .copied()
            .filter(|&s| {
                let v = self.pool.resolve_solvable(s).record;
                (lo <= v && v < hi) != inverse
            })
            .collect()
    }

    async fn get_candidates(&self, name: NameId) -> Option<Candidates> {
        let name = self.pool.resolve_package_name(name);
        let candidates: Vec<_> = self
            .packages
            .iter()
            .filter(|p| p.0 == name)
            .map(|p| self.solvable(p.0, p.1))
            .collect();
        if candidates.is_empty() {
            return None;
        }
        // no hints: dependencies are fetched lazily, when a solvable is selected
        Some(Candidates {
            candidates,
            ..Candidates::default()
        })
    }

    /// highest version first
    async fn sort_candidates(&self, _solver: &SolverCache<Self>, solvables: &mut [SolvableId]) {
        solvables.sort_by_key(|&s| std::cmp::Reverse(self.pool.resolve_solvable(s).record));
    }

    async fn get_dependencies(&self, solvable: SolvableId) -> Dependencies {
        let (name, version) = self.describe(solvable);
        let p = self
            .packages
            .iter()
            .find(|p| p.0 == name && p.1 == version)
            .expect("unknown solvable");
        Dependencies::Known(KnownDependencies {
            requirements: p.2.iter().map(|r| self.requirement(r)).collect(),
            constrains: p.3.iter().map(|c| self.version_set(c)).collect(),
        })
    }

    fn should_cancel_with_value(&self) -> Option<Box<dyn Any>> {
        None
    }
}

/// The universe:
///
/// ```text
///   x=1   requires  y
///   y=1   requires  b      constrains  b 5..6   (i.e. y can never be installed: its only
///                                                 candidate for `b` is b=1, which it forbids)
///   a=1, a=2, b=1          no dependencies
///
///   root requires   "a | b"   and   "b | a"
///   soft            x=1
/// ```
///
/// Without the soft requirement the solver answers `{a=2}`. The only correct answers with the
/// soft requirement are solutions of the hard problem that do not contain `x=1` (x can never be
/// installed) -- e.g. `{a=2}` again. Instead `Solver::solve` panics.
const UNIVERSE: &[Package] = &[
    ("x", 1, &["y"], &[]),
    ("y", 1, &["b"], &["b 5..6"]),
    ("a", 1, &[], &[]),
    ("a", 2, &[], &[]),
    ("b", 1, &[], &[]),
];
const ROOT_REQUIREMENTS: &[&str] = &["a | b", "b | a"];

fn solve(soft: &[(&str, u32)]) -> Vec<(String, u32)> {
    let provider = Provider::new(UNIVERSE);
    let requirements: Vec<Requirement> = ROOT_REQUIREMENTS
        .iter()
        .map(|r| provider.requirement(r))
        .collect();
    let soft: Vec<SolvableId> = soft.iter().map(|(n, v)| provider.solvable(n, *v)).collect();
    let mut solver = Solver::new(provider);
    let problem = Problem::new()
        .requirements(requirements)
        .soft_requirements(soft);
    let solution = solver
        .solve(problem)
        .unwrap_or_else(|_| panic!("solve returned Err for a solvable problem"));
    let mut solution: Vec<_> = solution
        .into_iter()
        .map(|s| solver.provider().describe(s))
        .collect();
    solution.sort();
    solution
}

#[test]
fn soft_requirement_panics() {
    // The hard problem is solvable.
    assert_eq!(solve(&[]), vec![("a".to_string(), 2)]);

    // Adding a (unsatisfiable) soft requirement must not change that: the soft requirement
    // should simply be left out. On the current source this call panics with
    //   `already decided: ()`   at src/solver/mod.rs:432 (Solver::run_sat)
    let solution = solve(&[("x", 1)]);

    // What a correct solver must guarantee (never reached at the moment):
    assert!(
        solution.iter().any(|(n, _)| n == "a" || n == "b"),
        "root requirements unsatisfied: {solution:?}"
    );
    assert!(!solution.iter().any(|(n, _)| n == "x" || n == "y"));
}
