//! Search harness: soft requirements must never turn a solvable problem into a
//! panic / error / invalid solution.
//!
//! Run e.g.
//!   HUNT_CASES=200000 HUNT_SEED=1 cargo test --offline --test hunt_soft random_search -- --nocapture
use std::{
    any::Any,
    cell::RefCell,
    collections::{BTreeMap, BTreeSet, HashMap},
    fmt::{Display, Write as _},
    panic::{AssertUnwindSafe, catch_unwind},
    sync::{Arc, Mutex},
};

use resolvo::{
    Candidates, Dependencies, DependencyProvider, HintDependenciesAvailable, Interner,
    KnownDependencies, NameId, Problem, Requirement, SolvableId, Solver, SolverCache, StringId,
    UnsolvableOrCancelled, VersionSetId, VersionSetUnionId,
    utils::{Pool, VersionSet},
};

// ---------------------------------------------------------------------------
// Universe description (plain data, printable)
// ---------------------------------------------------------------------------

/// half-open version range [lo, hi) of package `name`
#[derive(Clone, Debug, PartialEq, Eq, Hash, PartialOrd, Ord)]
pub struct Spec {
    pub name: usize,
    pub lo: u32,
    pub hi: u32,
}

#[derive(Clone, Debug, Default)]
pub struct Pkg {
    pub name: usize,
    pub version: u32,
    /// each requirement is a union of specs
    pub deps: Vec<Vec<Spec>>,
    pub constrains: Vec<Spec>,
}

#[derive(Clone, Debug, Default)]
pub struct Universe {
    pub n_names: usize,
    pub pkgs: Vec<Pkg>,
    pub root_reqs: Vec<Vec<Spec>>,
    pub root_constraints: Vec<Spec>,
    pub soft: Vec<(usize, u32)>,
    pub favored: BTreeMap<usize, u32>,
    pub locked: BTreeMap<usize, u32>,
    pub excluded: BTreeSet<(usize, u32)>,
    /// 0 = no hints, 1 = all
    pub hints: u8,
}

fn nm(i: usize) -> String {
    format!("p{i}")
}

impl Display for Spec {
    fn fmt(&self, f: &mut std::fmt::Formatter<'_>) -> std::fmt::Result {
        write!(f, "{} {}..{}", nm(self.name), self.lo, self.hi)
    }
}

fn union_str(u: &[Spec]) -> String {
    u.iter()
        .map(|s| s.to_string())
        .collect::<Vec<_>>()
        .join(" | ")
}

impl Universe {
    pub fn dump(&self) -> String {
        let mut s = String::new();
        for p in &self.pkgs {
            writeln!(
                s,
                "  {}={}  requires [{}]  constrains [{}]",
                nm(p.name),
                p.version,
                p.deps
                    .iter()
                    .map(|u| format!("\"{}\"", union_str(u)))
                    .collect::<Vec<_>>()
                    .join(", "),
                p.constrains
                    .iter()
                    .map(|c| format!("\"{c}\""))
                    .collect::<Vec<_>>()
                    .join(", "),
            )
            .unwrap();
        }
        writeln!(
            s,
            "  ROOT requires [{}]",
            self.root_reqs
                .iter()
                .map(|u| format!("\"{}\"", union_str(u)))
                .collect::<Vec<_>>()
                .join(", ")
        )
        .unwrap();
        writeln!(
            s,
            "  ROOT constrains [{}]",
            self.root_constraints
                .iter()
                .map(|c| format!("\"{c}\""))
                .collect::<Vec<_>>()
                .join(", ")
        )
        .unwrap();
        writeln!(
            s,
            "  SOFT [{}]",
            self.soft
                .iter()
                .map(|(n, v)| format!("{}={}", nm(*n), v))
                .collect::<Vec<_>>()
                .join(", ")
        )
        .unwrap();
        writeln!(
            s,
            "  favored {:?} locked {:?} excluded {:?} hints {}",
            self.favored, self.locked, self.excluded, self.hints
        )
        .unwrap();
        s
    }
}

// ---------------------------------------------------------------------------
// Provider
// ---------------------------------------------------------------------------

#[derive(Clone, Debug, PartialEq, Eq, Hash)]
pub struct R(u32, u32);
impl VersionSet for R {
    type V = u32;
}
impl Display for R {
    fn fmt(&self, f: &mut std::fmt::Formatter<'_>) -> std::fmt::Result {
        write!(f, "{}..{}", self.0, self.1)
    }
}

pub struct Prov {
    pool: Pool<R, String>,
    u: Universe,
    interned: RefCell<HashMap<(NameId, u32), SolvableId>>,
}

impl Prov {
    pub fn new(u: &Universe) -> Self {
        let pool = Pool::new();
        for i in 0..u.n_names {
            pool.intern_package_name(nm(i));
        }
        Prov {
            pool,
            u: u.clone(),
            interned: Default::default(),
        }
    }
    fn name_id(&self, n: usize) -> NameId {
        self.pool.intern_package_name(nm(n))
    }
    pub fn solvable(&self, n: usize, v: u32) -> SolvableId {
        let name = self.name_id(n);
        *self
            .interned
            .borrow_mut()
            .entry((name, v))
            .or_insert_with(|| self.pool.intern_solvable(name, v))
    }
    fn vs(&self, s: &Spec) -> VersionSetId {
        self.pool
            .intern_version_set(self.name_id(s.name), R(s.lo, s.hi))
    }
    pub fn req(&self, u: &[Spec]) -> Requirement {
        if u.len() == 1 {
            self.vs(&u[0]).into()
        } else {
            let mut it = u.iter().map(|s| self.vs(s));
            let first = it.next().unwrap();
            self.pool.intern_version_set_union(first, it).into()
        }
    }
    pub fn describe(&self, s: SolvableId) -> (usize, u32) {
        let sv = self.pool.resolve_solvable(s);
        let name = self.pool.resolve_package_name(sv.name);
        (name[1..].parse().unwrap(), sv.record)
    }
}

impl Interner for Prov {
    fn display_solvable(&self, solvable: SolvableId) -> impl Display + '_ {
        let s = self.pool.resolve_solvable(solvable);
        format!("{}={}", self.pool.resolve_package_name(s.name), s.record)
    }
    fn display_name(&self, name: NameId) -> impl Display + '_ {
        self.pool.resolve_package_name(name).clone()
    }
    fn display_version_set(&self, version_set: VersionSetId) -> impl Display + '_ {
        self.pool.resolve_version_set(version_set).clone()
    }
    fn display_string(&self, string_id: StringId) -> impl Display + '_ {
        self.pool.resolve_string(string_id).to_owned()
    }
    fn version_set_name(&self, version_set: VersionSetId) -> NameId {
        self.pool.resolve_version_set_package_name(version_set)
    }
    fn solvable_name(&self, solvable: SolvableId) -> NameId {
        self.pool.resolve_solvable(solvable).name
    }
    fn version_sets_in_union(
        &self,
        version_set_union: VersionSetUnionId,
    ) -> impl Iterator<Item = VersionSetId> {
        self.pool.resolve_version_set_union(version_set_union)
    }
}

impl DependencyProvider for Prov {
    async fn filter_candidates(
        &self,
        candidates: &[SolvableId],
        version_set: VersionSetId,
        inverse: bool,
    ) -> Vec<SolvableId> {
        let r = self.pool.resolve_version_set(version_set);
        candidates
            .iter()
            .copied()
            .filter(|s| {
                let v = self.pool.resolve_solvable(*s).record;
                (r.0 <= v && v < r.1) != inverse
            })
            .collect()
    }

    async fn get_candidates(&self, name: NameId) -> Option<Candidates> {
        let pname = self.pool.resolve_package_name(name);
        let n: usize = pname[1..].parse().unwrap();
        let versions: Vec<u32> = self
            .u
            .pkgs
            .iter()
            .filter(|p| p.name == n)
            .map(|p| p.version)
            .collect();
        if versions.is_empty() {
            return None;
        }
        let mut c = Candidates::default();
        for v in versions {
            let s = self.solvable(n, v);
            c.candidates.push(s);
            if self.u.favored.get(&n) == Some(&v) {
                c.favored = Some(s);
            }
            if self.u.locked.get(&n) == Some(&v) {
                c.locked = Some(s);
            }
            if self.u.excluded.contains(&(n, v)) {
                c.excluded.push((s, self.pool.intern_string("excluded")));
            }
        }
        if self.u.hints == 1 {
            c.hint_dependencies_available = HintDependenciesAvailable::All;
        }
        Some(c)
    }

    async fn sort_candidates(&self, _solver: &SolverCache<Self>, solvables: &mut [SolvableId]) {
        solvables.sort_by(|a, b| {
            let a = self.pool.resolve_solvable(*a).record;
            let b = self.pool.resolve_solvable(*b).record;
            b.cmp(&a)
        });
    }

    async fn get_dependencies(&self, solvable: SolvableId) -> Dependencies {
        let (n, v) = self.describe(solvable);
        let Some(p) = self.u.pkgs.iter().find(|p| p.name == n && p.version == v) else {
            return Dependencies::Known(Default::default());
        };
        Dependencies::Known(KnownDependencies {
            requirements: p.deps.iter().map(|u| self.req(u)).collect(),
            constrains: p.constrains.iter().map(|c| self.vs(c)).collect(),
        })
    }

    fn should_cancel_with_value(&self) -> Option<Box<dyn Any>> {
        None
    }
}

// ---------------------------------------------------------------------------
// Running + validating
// ---------------------------------------------------------------------------

#[derive(Debug)]
pub enum Outcome {
    Ok(Vec<(usize, u32)>),
    Unsolvable,
    Cancelled,
    Panic(String),
}

thread_local! {
    static LAST_PANIC: RefCell<Option<String>> = const { RefCell::new(None) };
}

pub fn install_quiet_hook() {
    static ONCE: std::sync::Once = std::sync::Once::new();
    ONCE.call_once(|| {
        let prev = std::panic::take_hook();
        let prev = Arc::new(Mutex::new(prev));
        std::panic::set_hook(Box::new(move |info| {
            let quiet = QUIET.with(|q| *q.borrow());
            if quiet {
                let loc = info
                    .location()
                    .map(|l| format!("{}:{}:{}", l.file(), l.line(), l.column()))
                    .unwrap_or_default();
                let msg = if let Some(s) = info.payload().downcast_ref::<&str>() {
                    s.to_string()
                } else if let Some(s) = info.payload().downcast_ref::<String>() {
                    s.clone()
                } else {
                    "<non-string payload>".to_string()
                };
                LAST_PANIC.with(|p| *p.borrow_mut() = Some(format!("{msg} @ {loc}")));
            } else {
                (prev.lock().unwrap())(info);
            }
        }));
    });
}

thread_local! {
    static QUIET: RefCell<bool> = const { RefCell::new(false) };
}

pub fn solve(u: &Universe, with_soft: bool) -> Outcome {
    install_quiet_hook();
    QUIET.with(|q| *q.borrow_mut() = true);
    let r = catch_unwind(AssertUnwindSafe(|| {
        let prov = Prov::new(u);
        let reqs: Vec<Requirement> = u.root_reqs.iter().map(|r| prov.req(r)).collect();
        let cons: Vec<VersionSetId> = u.root_constraints.iter().map(|c| prov.vs(c)).collect();
        let soft: Vec<SolvableId> = if with_soft {
            u.soft.iter().map(|(n, v)| prov.solvable(*n, *v)).collect()
        } else {
            vec![]
        };
        let mut solver = Solver::new(prov);
        let problem = Problem::new()
            .requirements(reqs)
            .constraints(cons)
            .soft_requirements(soft);
        match solver.solve(problem) {
            Ok(s) => Outcome::Ok(s.iter().map(|s| solver.provider().describe(*s)).collect()),
            Err(UnsolvableOrCancelled::Unsolvable(_)) => Outcome::Unsolvable,
            Err(UnsolvableOrCancelled::Cancelled(_)) => Outcome::Cancelled,
        }
    }));
    QUIET.with(|q| *q.borrow_mut() = false);
    match r {
        Ok(o) => o,
        Err(_) => Outcome::Panic(
            LAST_PANIC
                .with(|p| p.borrow_mut().take())
                .unwrap_or_else(|| "<unknown>".into()),
        ),
    }
}

fn sat_spec(sol: &[(usize, u32)], s: &Spec) -> bool {
    sol.iter()
        .any(|(n, v)| *n == s.name && s.lo <= *v && *v < s.hi)
}
fn sat_union(sol: &[(usize, u32)], u: &[Spec]) -> bool {
    u.iter().any(|s| sat_spec(sol, s))
}
fn violates_constraint(sol: &[(usize, u32)], c: &Spec) -> Option<(usize, u32)> {
    sol.iter()
        .copied()
        .find(|(n, v)| *n == c.name && !(c.lo <= *v && *v < c.hi))
}

/// Returns (hard violations, soft-ish violations (duplicates / lock / exclusion))
pub fn validate(u: &Universe, sol: &[(usize, u32)]) -> (Vec<String>, Vec<String>) {
    let mut hard = vec![];
    let mut weak = vec![];
    for r in &u.root_reqs {
        if !sat_union(sol, r) {
            hard.push(format!("root requirement \"{}\" unsatisfied", union_str(r)));
        }
    }
    for c in &u.root_constraints {
        if let Some((n, v)) = violates_constraint(sol, c) {
            hard.push(format!(
                "root constraint \"{c}\" violated by {}={v}",
                nm(n)
            ));
        }
    }
    for (n, v) in sol {
        if let Some(p) = u.pkgs.iter().find(|p| p.name == *n && p.version == *v) {
            for r in &p.deps {
                if !sat_union(sol, r) {
                    hard.push(format!(
                        "{}={v}: requirement \"{}\" unsatisfied",
                        nm(*n),
                        union_str(r)
                    ));
                }
            }
            for c in &p.constrains {
                if let Some((cn, cv)) = violates_constraint(sol, c) {
                    hard.push(format!(
                        "{}={v}: constrains \"{c}\" violated by {}={cv}",
                        nm(*n),
                        nm(cn)
                    ));
                }
            }
        } else {
            weak.push(format!("selected unknown solvable {}={v}", nm(*n)));
        }
        if u.excluded.contains(&(*n, *v)) {
            weak.push(format!("selected excluded {}={v}", nm(*n)));
        }
        if let Some(l) = u.locked.get(n) {
            if l != v {
                weak.push(format!("selected {}={v} but locked to {l}", nm(*n)));
            }
        }
    }
    let mut seen = BTreeMap::new();
    for (n, v) in sol {
        if let Some(prev) = seen.insert(*n, *v) {
            if prev == *v {
                hard.push(format!("solvable {}={v} listed twice", nm(*n)));
            } else {
                weak.push(format!("two solvables of {}: {prev} and {v}", nm(*n)));
            }
        }
    }
    (hard, weak)
}

// ---------------------------------------------------------------------------
// xorshift
// ---------------------------------------------------------------------------

pub struct Rng(u64);
impl Rng {
    pub fn new(seed: u64) -> Self {
        let mut r = Rng(seed.wrapping_mul(0x9E3779B97F4A7C15) ^ 0xD1B54A32D192ED03);
        if r.0 == 0 {
            r.0 = 1;
        }
        for _ in 0..4 {
            r.next();
        }
        r
    }
    pub fn next(&mut self) -> u64 {
        let mut x = self.0;
        x ^= x << 13;
        x ^= x >> 7;
        x ^= x << 17;
        self.0 = x;
        x.wrapping_mul(0x2545F4914F6CDD1D)
    }
    pub fn below(&mut self, n: u64) -> u64 {
        (self.next() >> 11) % n
    }
    pub fn range(&mut self, lo: u64, hi_incl: u64) -> u64 {
        lo + self.below(hi_incl - lo + 1)
    }
    pub fn chance(&mut self, pct: u64) -> bool {
        self.below(100) < pct
    }
}

#[derive(Clone, Copy, Debug)]
pub struct Profile {
    pub names: (u64, u64),
    pub versions: (u64, u64),
    pub max_deps: u64,
    pub max_constrains: u64,
    pub root_reqs: (u64, u64),
    pub soft: (u64, u64),
    pub union_pct: u64,
    pub root_constraint_pct: u64,
    pub extras_pct: u64, // favored / locked / excluded
    pub hints_pct: u64,
    pub full_range_pct: u64,
}

pub const PROFILES: &[Profile] = &[
    // as in the task statement
    Profile {
        names: (3, 7),
        versions: (1, 3),
        max_deps: 2,
        max_constrains: 1,
        root_reqs: (2, 3),
        soft: (1, 3),
        union_pct: 10,
        root_constraint_pct: 10,
        extras_pct: 5,
        hints_pct: 10,
        full_range_pct: 50,
    },
    // more constrains, more versions, more soft
    Profile {
        names: (4, 8),
        versions: (2, 4),
        max_deps: 2,
        max_constrains: 2,
        root_reqs: (2, 4),
        soft: (2, 5),
        union_pct: 5,
        root_constraint_pct: 20,
        extras_pct: 10,
        hints_pct: 0,
        full_range_pct: 60,
    },
    // dense
    Profile {
        names: (5, 10),
        versions: (2, 3),
        max_deps: 3,
        max_constrains: 2,
        root_reqs: (3, 4),
        soft: (1, 4),
        union_pct: 15,
        root_constraint_pct: 5,
        extras_pct: 0,
        hints_pct: 0,
        full_range_pct: 70,
    },
];

fn gen_spec(r: &mut Rng, n_names: usize, maxv: u32, full_pct: u64, not: Option<usize>) -> Spec {
    let mut name = r.below(n_names as u64) as usize;
    if Some(name) == not {
        name = (name + 1) % n_names;
    }
    if r.chance(full_pct) {
        Spec {
            name,
            lo: 0,
            hi: 100,
        }
    } else {
        let lo = r.range(1, maxv as u64) as u32;
        let hi = r.range(lo as u64 + 1, maxv as u64 + 1) as u32;
        Spec { name, lo, hi }
    }
}

pub fn gen_universe(seed: u64) -> Universe {
    let mut r = Rng::new(seed);
    let p = PROFILES[(seed % PROFILES.len() as u64) as usize];
    let n_names = r.range(p.names.0, p.names.1) as usize;
    let maxv = p.versions.1 as u32;
    let mut u = Universe {
        n_names,
        ..Default::default()
    };
    for n in 0..n_names {
        // occasionally a name without any candidates
        if r.chance(3) {
            continue;
        }
        let nv = r.range(p.versions.0, p.versions.1) as u32;
        for v in 1..=nv {
            let mut pk = Pkg {
                name: n,
                version: v,
                ..Default::default()
            };
            for _ in 0..r.range(0, p.max_deps) {
                let mut un = vec![gen_spec(&mut r, n_names, maxv, p.full_range_pct, Some(n))];
                if r.chance(p.union_pct) {
                    un.push(gen_spec(&mut r, n_names, maxv, p.full_range_pct, Some(n)));
                }
                pk.deps.push(un);
            }
            for _ in 0..r.range(0, p.max_constrains) {
                pk.constrains
                    .push(gen_spec(&mut r, n_names, maxv, 0, Some(n)));
            }
            u.pkgs.push(pk);
        }
    }
    if u.pkgs.is_empty() {
        u.pkgs.push(Pkg {
            name: 0,
            version: 1,
            ..Default::default()
        });
    }
    for _ in 0..r.range(p.root_reqs.0, p.root_reqs.1) {
        let mut un = vec![gen_spec(&mut r, n_names, maxv, p.full_range_pct, None)];
        if r.chance(p.union_pct) {
            un.push(gen_spec(&mut r, n_names, maxv, p.full_range_pct, None));
        }
        u.root_reqs.push(un);
    }
    if r.chance(p.root_constraint_pct) {
        u.root_constraints
            .push(gen_spec(&mut r, n_names, maxv, 0, None));
    }
    for _ in 0..r.range(p.soft.0, p.soft.1) {
        let pk = &u.pkgs[r.below(u.pkgs.len() as u64) as usize];
        let s = (pk.name, pk.version);
        if !u.soft.contains(&s) {
            u.soft.push(s);
        }
    }
    if r.chance(p.extras_pct) {
        let pk = &u.pkgs[r.below(u.pkgs.len() as u64) as usize];
        u.favored.insert(pk.name, pk.version);
    }
    if r.chance(p.extras_pct) {
        let pk = &u.pkgs[r.below(u.pkgs.len() as u64) as usize];
        u.locked.insert(pk.name, pk.version);
    }
    if r.chance(p.extras_pct) {
        let pk = &u.pkgs[r.below(u.pkgs.len() as u64) as usize];
        u.excluded.insert((pk.name, pk.version));
    }
    if r.chance(p.hints_pct) {
        u.hints = 1;
    }
    u
}

#[derive(Debug, Default)]
pub struct Stats {
    pub cases: u64,
    pub hard_solvable: u64,
    pub hard_panic: u64,
    pub soft_panic: u64,
    pub soft_err: u64,
    pub soft_invalid: u64,
    pub soft_weak: u64,
    pub hard_invalid: u64,
}

/// Returns a description of the failure, if any
pub fn check(u: &Universe, stats: &mut Stats) -> Option<String> {
    stats.cases += 1;
    match solve(u, false) {
        Outcome::Ok(sol) => {
            stats.hard_solvable += 1;
            let (hard, _weak) = validate(u, &sol);
            if !hard.is_empty() {
                stats.hard_invalid += 1;
                return Some(format!("HARD-ONLY solution invalid: {hard:?} sol={sol:?}"));
            }
        }
        Outcome::Panic(m) => {
            stats.hard_panic += 1;
            return Some(format!("HARD-ONLY PANIC: {m}"));
        }
        _ => return None,
    }
    match solve(u, true) {
        Outcome::Ok(sol) => {
            let (hard, weak) = validate(u, &sol);
            if !hard.is_empty() {
                stats.soft_invalid += 1;
                return Some(format!("SOFT solution INVALID: {hard:?} sol={sol:?}"));
            }
            if !weak.is_empty() {
                stats.soft_weak += 1;
                if std::env::var("HUNT_WEAK").is_ok() {
                    return Some(format!("SOFT solution weak-violation: {weak:?} sol={sol:?}"));
                }
            }
            None
        }
        Outcome::Panic(m) => {
            stats.soft_panic += 1;
            Some(format!("SOFT PANIC: {m}"))
        }
        Outcome::Unsolvable => {
            stats.soft_err += 1;
            Some("SOFT run returned Err(Unsolvable) although hard problem solvable".into())
        }
        Outcome::Cancelled => {
            stats.soft_err += 1;
            Some("SOFT run returned Err(Cancelled)".into())
        }
    }
}

#[test]
fn random_search() {
    let cases: u64 = std::env::var("HUNT_CASES")
        .ok()
        .and_then(|s| s.parse().ok())
        .unwrap_or(3000);
    let seed0: u64 = std::env::var("HUNT_SEED")
        .ok()
        .and_then(|s| s.parse().ok())
        .unwrap_or(1);
    let max_report: usize = std::env::var("HUNT_REPORT")
        .ok()
        .and_then(|s| s.parse().ok())
        .unwrap_or(5);
    let mut stats = Stats::default();
    let mut kinds: BTreeMap<String, (u64, u64, usize)> = BTreeMap::new();
    let mut reported = 0;
    for seed in seed0..seed0 + cases {
        let u = gen_universe(seed);
        if let Some(f) = check(&u, &mut stats) {
            let key: String = f.chars().take(70).collect();
            let size = u.pkgs.len();
            let e = kinds.entry(key).or_insert((0, seed, size));
            e.0 += 1;
            if size < e.2 {
                e.1 = seed;
                e.2 = size;
            }
            if reported < max_report {
                reported += 1;
                println!("=== FAILURE seed={seed}: {f}\n{}", u.dump());
            }
        }
    }
    println!("{stats:#?}");
    for (k, (n, seed, size)) in &kinds {
        println!("{n:6} x {k}   (smallest: seed {seed}, {size} solvables)");
    }
    if std::env::var("HUNT_ASSERT").is_ok() {
        assert!(kinds.is_empty());
    }
}

/// Print one seed's universe and outcome (HUNT_SEED)
#[test]
fn show_seed() {
    let Some(seed) = std::env::var("HUNT_SHOW").ok().and_then(|s| s.parse().ok()) else {
        return;
    };
    let u = gen_universe(seed);
    println!("{}", u.dump());
    println!("hard: {:?}", solve(&u, false));
    println!("soft: {:?}", solve(&u, true));
}

// ---------------------------------------------------------------------------
// Shrinker (greedy delta debugging on the universe description)
// ---------------------------------------------------------------------------

fn classify(u: &Universe) -> Option<String> {
    let mut st = Stats::default();
    let f = check(u, &mut st)?;
    if f.starts_with("SOFT PANIC") {
        // class = the panic message + location
        Some(f)
    } else if f.starts_with("SOFT solution INVALID") {
        Some("INVALID".into())
    } else {
        Some(f.chars().take(30).collect())
    }
}

fn candidates(u: &Universe) -> Vec<Universe> {
    let mut out = vec![];
    for i in 0..u.soft.len() {
        let mut c = u.clone();
        c.soft.remove(i);
        out.push(c);
    }
    for i in 0..u.pkgs.len() {
        let mut c = u.clone();
        let p = c.pkgs.remove(i);
        c.soft.retain(|s| *s != (p.name, p.version));
        out.push(c);
    }
    for i in 0..u.root_reqs.len() {
        let mut c = u.clone();
        c.root_reqs.remove(i);
        out.push(c);
        if u.root_reqs[i].len() > 1 {
            for j in 0..u.root_reqs[i].len() {
                let mut c = u.clone();
                c.root_reqs[i].remove(j);
                out.push(c);
            }
        }
    }
    for i in 0..u.root_constraints.len() {
        let mut c = u.clone();
        c.root_constraints.remove(i);
        out.push(c);
    }
    for i in 0..u.pkgs.len() {
        for j in 0..u.pkgs[i].deps.len() {
            let mut c = u.clone();
            c.pkgs[i].deps.remove(j);
            out.push(c);
            if u.pkgs[i].deps[j].len() > 1 {
                for k in 0..u.pkgs[i].deps[j].len() {
                    let mut c = u.clone();
                    c.pkgs[i].deps[j].remove(k);
                    out.push(c);
                }
            }
        }
        for j in 0..u.pkgs[i].constrains.len() {
            let mut c = u.clone();
            c.pkgs[i].constrains.remove(j);
            out.push(c);
        }
    }
    if !u.favored.is_empty() {
        let mut c = u.clone();
        c.favored.clear();
        out.push(c);
    }
    if !u.locked.is_empty() {
        let mut c = u.clone();
        c.locked.clear();
        out.push(c);
    }
    if !u.excluded.is_empty() {
        let mut c = u.clone();
        c.excluded.clear();
        out.push(c);
    }
    if u.hints != 0 {
        let mut c = u.clone();
        c.hints = 0;
        out.push(c);
    }
    // widen ranges to "any"
    for i in 0..u.pkgs.len() {
        for j in 0..u.pkgs[i].deps.len() {
            for k in 0..u.pkgs[i].deps[j].len() {
                let s = &u.pkgs[i].deps[j][k];
                if (s.lo, s.hi) != (0, 100) {
                    let mut c = u.clone();
                    c.pkgs[i].deps[j][k].lo = 0;
                    c.pkgs[i].deps[j][k].hi = 100;
                    out.push(c);
                }
            }
        }
    }
    for i in 0..u.root_reqs.len() {
        for k in 0..u.root_reqs[i].len() {
            let s = &u.root_reqs[i][k];
            if (s.lo, s.hi) != (0, 100) {
                let mut c = u.clone();
                c.root_reqs[i][k].lo = 0;
                c.root_reqs[i][k].hi = 100;
                out.push(c);
            }
        }
    }
    out
}

pub fn shrink(mut u: Universe) -> Universe {
    let class = classify(&u).expect("seed does not fail");
    loop {
        let mut progressed = false;
        for c in candidates(&u) {
            if classify(&c).as_deref() == Some(class.as_str()) {
                u = c;
                progressed = true;
                break;
            }
        }
        if !progressed {
            return u;
        }
    }
}

#[test]
fn shrink_seed() {
    let Some(seed) = std::env::var("HUNT_SHRINK")
        .ok()
        .and_then(|s| s.parse::<u64>().ok())
    else {
        return;
    };
    let u = gen_universe(seed);
    println!("original ({} solvables): {:?}", u.pkgs.len(), classify(&u));
    let s = shrink(u);
    println!("shrunk ({} solvables): {:?}\n{}", s.pkgs.len(), classify(&s), s.dump());
    println!("hard: {:?}", solve(&s, false));
    println!("soft: {:?}", solve(&s, true));
}

// ---------------------------------------------------------------------------
// Parsing the dump format back (for hand-built scenarios / minimisation)
// ---------------------------------------------------------------------------

fn parse_name(s: &str) -> usize {
    s.trim().trim_start_matches('p').parse().unwrap()
}
fn parse_spec(s: &str) -> Spec {
    let s = s.trim();
    let mut it = s.split_whitespace();
    let name = parse_name(it.next().unwrap());
    match it.next() {
        None => Spec { name, lo: 0, hi: 100 },
        Some(r) => {
            if let Some((lo, hi)) = r.split_once("..") {
                Spec { name, lo: lo.parse().unwrap(), hi: hi.parse().unwrap() }
            } else {
                let v: u32 = r.parse().unwrap();
                Spec { name, lo: v, hi: v + 1 }
            }
        }
    }
}
fn parse_union(s: &str) -> Vec<Spec> {
    s.split('|').map(parse_spec).collect()
}
/// the quoted strings inside the first [...] following `key`
fn section<'a>(line: &'a str, key: &str) -> Vec<&'a str> {
    let Some(i) = line.find(key) else { return vec![] };
    let rest = &line[i + key.len()..];
    let a = rest.find('[').unwrap();
    let b = rest.find(']').unwrap();
    let inner = &rest[a + 1..b];
    if inner.contains('"') {
        inner.split('"').skip(1).step_by(2).collect()
    } else {
        inner.split(',').map(str::trim).filter(|s| !s.is_empty()).collect()
    }
}

pub fn parse_universe(text: &str) -> Universe {
    let mut u = Universe::default();
    let mut max_name = 0;
    for line in text.lines() {
        let line = line.trim();
        if line.is_empty() || line.starts_with('#') {
            continue;
        }
        if line.starts_with("ROOT requires") {
            u.root_reqs = section(line, "requires").into_iter().map(parse_union).collect();
        } else if line.starts_with("ROOT constrains") {
            u.root_constraints = section(line, "constrains").into_iter().map(parse_spec).collect();
        } else if line.starts_with("SOFT") {
            u.soft = section(line, "SOFT")
                .into_iter()
                .map(|s| {
                    let (n, v) = s.split_once('=').unwrap();
                    (parse_name(n), v.parse().unwrap())
                })
                .collect();
        } else if line.starts_with("HINTS") {
            u.hints = 1;
        } else if line.starts_with("LOCK") || line.starts_with("FAVOR") || line.starts_with("EXCLUDE") {
            let (n, v) = line.split_whitespace().nth(1).unwrap().split_once('=').unwrap();
            let (n, v) = (parse_name(n), v.parse().unwrap());
            if line.starts_with("LOCK") {
                u.locked.insert(n, v);
            } else if line.starts_with("FAVOR") {
                u.favored.insert(n, v);
            } else {
                u.excluded.insert((n, v));
            }
        } else if line.starts_with("favored") {
            continue;
        } else {
            let head = line.split_whitespace().next().unwrap();
            let (n, v) = head.split_once('=').unwrap();
            u.pkgs.push(Pkg {
                name: parse_name(n),
                version: v.parse().unwrap(),
                deps: section(line, "requires").into_iter().map(parse_union).collect(),
                constrains: section(line, "constrains").into_iter().map(parse_spec).collect(),
            });
        }
    }
    for p in &u.pkgs {
        max_name = max_name.max(p.name);
        for s in p.deps.iter().flatten().chain(p.constrains.iter()) {
            max_name = max_name.max(s.name);
        }
    }
    for s in u.root_reqs.iter().flatten().chain(u.root_constraints.iter()) {
        max_name = max_name.max(s.name);
    }
    u.n_names = max_name + 1;
    u
}

/// HUNT_FILE=<path of a universe in dump format>: solve (hard, soft), with
/// tracing output of the soft run if HUNT_TRACE is set.
#[test]
#[tracing_test::traced_test]
fn run_file() {
    let Ok(path) = std::env::var("HUNT_FILE") else {
        return;
    };
    let u = parse_universe(&std::fs::read_to_string(path).unwrap());
    println!("{}", u.dump());
    let hard = solve(&u, false);
    println!("hard: {hard:?}");
    if std::env::var("HUNT_TRACE").is_ok() {
        println!("################ SOFT RUN ################");
    }
    let soft = solve(&u, true);
    println!("soft: {soft:?}");
    if let Outcome::Ok(sol) = &soft {
        println!("validation: {:?}", validate(&u, sol));
    }
    if std::env::var("HUNT_SHRINK_FILE").is_ok() {
        let s = shrink(u);
        println!("shrunk:\n{}", s.dump());
    }
}

// ---------------------------------------------------------------------------
// Hand-built scenarios (mechanism: conflict analysis back-jumps below run_sat's
// `starting_level` while a soft requirement is being tried)
// ---------------------------------------------------------------------------

/// (name, universe, expected failure on the current source: "" = none)
const HAND: &[(&str, &str)] = &[
    // soft x=p0 -> y=p1 (propagated) -> p3 (decided, level S+2) conflicts with y's constrains:
    // learns (NOT y OR NOT p3), then the unit (NOT y) => back-jump to level 1 < S=2.
    // p2 has a single version: the hard decision is re-made identically -> no failure.
    (
        "unit-learnt, same decision re-made",
        r#"
        p0=1  requires ["p1"]  constrains []
        p1=1  requires ["p3"]  constrains ["p3 5..6"]
        p2=1  requires []  constrains []
        p3=1  requires []  constrains []
        ROOT requires ["p2 | p3", "p3 | p2"]
        SOFT [p0=1]
        "#,
    ),
    // as above, p2 has two versions: after the back-jump the activity bump of p3 makes decide()
    // pick p3=1 (never encoded) at level 2 == S; new_solvables non-empty -> loop head with
    // level == starting_level -> `already decided` PANIC
    (
        "unit-learnt, other decision re-made at level S  (PANIC)",
        r#"
        p0=1  requires ["p1"]  constrains []
        p1=1  requires ["p3"]  constrains ["p3 5..6"]
        p2=1  requires []  constrains []
        p2=2  requires []  constrains []
        p3=1  requires []  constrains []
        ROOT requires ["p2 | p3", "p3 | p2"]
        SOFT [p0=1]
        "#,
    ),
    // as above but root requires p2 separately and p3=1 is itself uninstallable (requires p5
    // which has no candidates): after the back-jump decisions are re-made as p3=1 (level 2),
    // p2=2 (level 3); encoding p3=1 yields a conflict at level S+1 which is blamed on the soft
    // solvable; undo_until(S) keeps the bad p3=1 and drops p2=2 -> INVALID solution {p3=1}
    (
        "unit-learnt, bad decision re-made below S  (INVALID)",
        r#"
        p0=1  requires ["p1"]  constrains []
        p1=1  requires ["p3"]  constrains ["p3 5..6"]
        p2=1  requires []  constrains []
        p2=2  requires []  constrains []
        p3=1  requires ["p5"]  constrains []
        ROOT requires ["p2", "p3 | p2"]
        SOFT [p0=1]
        "#,
    ),
    // learnt clause (NOT x OR NOT h) with h decided at level 2 < S=3: x asserted false at
    // level 2, hard decision of level 3 undone and re-made.
    (
        "binary learnt with low-level hard decision",
        r#"
        p0=1  requires ["p1"]  constrains []
        p1=1  requires ["p4"]  constrains []
        p4=1  requires []  constrains ["p2 1..2"]
        p4=2  requires []  constrains ["p2 1..2"]
        p2=1  requires []  constrains []
        p2=2  requires []  constrains []
        p3=1  requires []  constrains []
        p3=2  requires []  constrains []
        ROOT requires ["p2", "p3"]
        SOFT [p0=1]
        "#,
    ),
    // two soft requirements: the first is accepted, the second one back-jumps below S
    (
        "earlier accepted soft solvable undone by back-jump",
        r#"
        p6=1  requires []  constrains []
        p0=1  requires ["p1"]  constrains []
        p1=1  requires ["p3"]  constrains ["p3 5..6"]
        p2=1  requires []  constrains []
        p2=2  requires []  constrains []
        p3=1  requires []  constrains []
        ROOT requires ["p2", "p3 | p2"]
        SOFT [p6=1, p0=1]
        "#,
    ),
    // as the first scenario, with an independent, perfectly installable soft requirement p6=1
    // accepted first (level 3 = S): the back-jump to level 1 undoes it and nothing re-installs
    // it -> valid solution, but the accepted soft requirement p6=1 is silently LOST
    (
        "earlier accepted soft solvable silently lost",
        r#"
        p6=1  requires []  constrains []
        p0=1  requires ["p1"]  constrains []
        p1=1  requires ["p3"]  constrains ["p3 5..6"]
        p2=1  requires []  constrains []
        p3=1  requires []  constrains []
        ROOT requires ["p2 | p3", "p3 | p2"]
        SOFT [p6=1, p0=1]
        "#,
    ),
    // shrunk random seed 285314 (profile 2): PANIC
    (
        "random seed 285314 shrunk  (PANIC)",
        r#"
        p1=1  requires []  constrains []
        p1=2  requires []  constrains []
        p1=3  requires []  constrains []
        p3=1  requires ["p9 0..100", "p1 3..4"]  constrains []
        p5=1  requires []  constrains []
        p5=2  requires ["p8 0..100"]  constrains ["p8 3..4"]
        p7=1  requires []  constrains []
        p7=2  requires []  constrains []
        p8=2  requires []  constrains []
        p8=3  requires []  constrains ["p1 2..3"]
        p9=2  requires []  constrains []
        p9=3  requires ["p7 1..2"]  constrains []
        ROOT requires ["p7 0..100", "p1 0..100", "p5 0..100"]
        SOFT [p3=1]
        "#,
    ),
    // shrunk random seed 596051: INVALID
    (
        "random seed 596051 shrunk  (INVALID)",
        r#"
        p0=2  requires ["p2 0..100"]  constrains []
        p2=2  requires ["p6 0..100"]  constrains ["p6 1..2"]
        p4=2  requires []  constrains []
        p4=3  requires []  constrains []
        p6=2  requires ["p5 0..100"]  constrains []
        ROOT requires ["p4 0..100", "p6 0..100 | p4 0..100"]
        SOFT [p0=2]
        "#,
    ),
];

#[test]
fn hand_built_scenarios() {
    let mut failures = 0;
    for (name, text) in HAND {
        let u = parse_universe(text);
        let mut st = Stats::default();
        let hard = solve(&u, false);
        let soft = solve(&u, true);
        let verdict = check(&u, &mut st);
        println!("--- {name}\n    hard: {hard:?}\n    soft: {soft:?}\n    verdict: {verdict:?}");
        if let Outcome::Ok(sol) = &soft {
            let dropped: Vec<_> = u.soft.iter().filter(|s| !sol.contains(s)).collect();
            println!("    soft requirements not in the solution: {dropped:?}");
        }
        if verdict.is_some() {
            failures += 1;
        }
    }
    println!("{failures} of {} hand-built scenarios fail", HAND.len());
    if std::env::var("HUNT_ASSERT").is_ok() {
        assert_eq!(failures, 0);
    }
}
