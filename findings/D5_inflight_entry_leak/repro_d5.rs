//! Reproduction for D5: a `Solver` that was cancelled while a
//! `get_candidates` request of the provider was still suspended can never be
//! used again for a problem that needs that package.
//!
//! `SolverCache::get_or_cache_candidates` registers an in-flight `Event` for
//! the package before it awaits `provider.get_candidates(..)` and only removes
//! it after that await completed. When the encoder returns early because some
//! other request reported the cancellation, the suspended future is dropped
//! and the in-flight entry stays in the (persistent) cache. The next `solve`
//! finds the entry and waits for a notification that nobody will ever send.
//!
//! Problem used by all tests (no dependencies, trivially solvable):
//!
//!   root requires  B *  and  A *        A = {a1}   B = {b1}
//!
//! `get_candidates(B)` yields once (returns `Pending` and wakes itself) before
//! it returns, `get_candidates(A)` returns at once.
//!
//! Every test asserts what property C13 demands (a reused solver gives the
//! verdict of a fresh solver, terminates, and does not request metadata
//! again that it already obtained).

use std::{
    any::Any,
    cell::Cell,
    fmt::Display,
    future::Future,
    panic::{AssertUnwindSafe, catch_unwind},
    pin::{Pin, pin},
    sync::{
        Arc, Mutex,
        atomic::{AtomicBool, Ordering},
        mpsc,
    },
    task::{Context, Poll, Wake, Waker},
    time::Duration,
};

use resolvo::{
    Candidates, Dependencies, DependencyProvider, Interner, KnownDependencies, NameId, Problem,
    Requirement, SolvableId, Solver, SolverCache, StringId, UnsolvableOrCancelled, VersionSetId,
    VersionSetUnionId, runtime::AsyncRuntime,
};

const A: NameId = NameId(0);
const B: NameId = NameId(1);
const A1: SolvableId = SolvableId(0);
const B1: SolvableId = SolvableId(1);
const VS_A_ANY: VersionSetId = VersionSetId(0);
const VS_B_ANY: VersionSetId = VersionSetId(1);

// ---------------------------------------------------------------------------
// A future that returns `Pending` exactly once (and wakes itself).
// ---------------------------------------------------------------------------
struct YieldOnce(bool);
impl Future for YieldOnce {
    type Output = ();
    fn poll(mut self: Pin<&mut Self>, cx: &mut Context<'_>) -> Poll<()> {
        if self.0 {
            Poll::Ready(())
        } else {
            self.0 = true;
            cx.waker().wake_by_ref();
            Poll::Pending
        }
    }
}

// ---------------------------------------------------------------------------
// The provider
// ---------------------------------------------------------------------------
type Log = Arc<Mutex<Vec<String>>>;

struct Provider {
    log: Log,
    /// True once a `get_candidates(B)` call has been suspended.
    b_suspended: Cell<bool>,
    /// If set, `should_cancel_with_value` fires exactly once: the first time
    /// it is asked while `get_candidates(B)` is suspended.
    cancel_armed: Cell<bool>,
}

impl Provider {
    fn new(log: Log, cancel_once: bool) -> Self {
        Self {
            log,
            b_suspended: Cell::new(false),
            cancel_armed: Cell::new(cancel_once),
        }
    }
    fn log(&self, s: impl Into<String>) {
        self.log.lock().unwrap().push(s.into());
    }
}

fn name_str(n: NameId) -> &'static str {
    match n {
        A => "A",
        B => "B",
        _ => "?",
    }
}

impl Interner for Provider {
    fn display_solvable(&self, solvable: SolvableId) -> impl Display + '_ {
        match solvable {
            A1 => "a1",
            B1 => "b1",
            _ => "?",
        }
    }
    fn display_name(&self, name: NameId) -> impl Display + '_ {
        name_str(name)
    }
    fn display_version_set(&self, _version_set: VersionSetId) -> impl Display + '_ {
        "*"
    }
    fn display_string(&self, _string_id: StringId) -> impl Display + '_ {
        ""
    }
    fn version_set_name(&self, version_set: VersionSetId) -> NameId {
        match version_set {
            VS_A_ANY => A,
            VS_B_ANY => B,
            _ => unreachable!(),
        }
    }
    fn solvable_name(&self, solvable: SolvableId) -> NameId {
        match solvable {
            A1 => A,
            B1 => B,
            _ => unreachable!(),
        }
    }
    fn version_sets_in_union(
        &self,
        _version_set_union: VersionSetUnionId,
    ) -> impl Iterator<Item = VersionSetId> {
        std::iter::empty()
    }
}

impl DependencyProvider for Provider {
    async fn filter_candidates(
        &self,
        candidates: &[SolvableId],
        _version_set: VersionSetId,
        inverse: bool,
    ) -> Vec<SolvableId> {
        // both version sets match everything
        if inverse { vec![] } else { candidates.to_vec() }
    }

    async fn get_candidates(&self, name: NameId) -> Option<Candidates> {
        self.log(format!("get_candidates({}) called", name_str(name)));
        if name == B {
            self.b_suspended.set(true);
            self.log("get_candidates(B) suspends (Pending)");
            YieldOnce(false).await;
            self.b_suspended.set(false);
            self.log("get_candidates(B) resumed");
        }
        self.log(format!("get_candidates({}) returns", name_str(name)));
        Some(Candidates {
            candidates: vec![if name == A { A1 } else { B1 }],
            ..Candidates::default()
        })
    }

    async fn sort_candidates(&self, _solver: &SolverCache<Self>, _solvables: &mut [SolvableId]) {}

    async fn get_dependencies(&self, solvable: SolvableId) -> Dependencies {
        self.log(format!("get_dependencies({})", solvable.0));
        Dependencies::Known(KnownDependencies::default())
    }

    fn should_cancel_with_value(&self) -> Option<Box<dyn Any>> {
        if self.cancel_armed.get() && self.b_suspended.get() {
            self.cancel_armed.set(false);
            self.log("should_cancel_with_value fires (get_candidates(B) is suspended)");
            Some(Box::new("cancelled!".to_string()))
        } else {
            None
        }
    }
}

fn problem() -> Problem<std::iter::Empty<SolvableId>> {
    // B first, so that the request for the candidates of B is polled (and
    // suspended) before the request for the candidates of A is polled.
    Problem::new().requirements(vec![
        Requirement::Single(VS_B_ANY),
        Requirement::Single(VS_A_ANY),
    ])
}

/// Outcome of a solve in a form that can be compared and sent over a channel.
#[derive(Debug, Clone, PartialEq, Eq)]
enum Outcome {
    Solved(Vec<u32>),
    Unsolvable,
    Cancelled(String),
    Panicked(String),
}

fn outcome(r: Result<Vec<SolvableId>, UnsolvableOrCancelled>) -> Outcome {
    match r {
        Ok(mut s) => {
            s.sort();
            Outcome::Solved(s.into_iter().map(|s| s.0).collect())
        }
        Err(UnsolvableOrCancelled::Unsolvable(_)) => Outcome::Unsolvable,
        Err(UnsolvableOrCancelled::Cancelled(v)) => {
            Outcome::Cancelled(v.downcast_ref::<String>().cloned().unwrap_or_default())
        }
    }
}

fn solve_caught<RT: AsyncRuntime>(solver: &mut Solver<Provider, RT>) -> Outcome {
    match catch_unwind(AssertUnwindSafe(|| solver.solve(problem()))) {
        Ok(r) => outcome(r),
        Err(p) => Outcome::Panicked(
            p.downcast_ref::<String>()
                .cloned()
                .or_else(|| p.downcast_ref::<&str>().map(|s| s.to_string()))
                .unwrap_or_else(|| "<non-string panic>".into()),
        ),
    }
}

fn count(log: &Log, needle: &str) -> usize {
    log.lock()
        .unwrap()
        .iter()
        .filter(|l| l.as_str() == needle)
        .count()
}

fn dump(title: &str, log: &Log) {
    println!("--- {title}");
    for l in log.lock().unwrap().iter() {
        println!("    {l}");
    }
}

// ---------------------------------------------------------------------------
// A minimal single threaded executor. It polls the future on the current
// thread. The provider above has no external source of wake-ups, so when a
// poll returns `Pending` and nothing called the waker, the future can never
// become ready: instead of blocking forever (what a real runtime does, see
// the tokio test below), the executor panics with a STALL message.
// ---------------------------------------------------------------------------
struct FlagWaker(AtomicBool);
impl Wake for FlagWaker {
    fn wake(self: Arc<Self>) {
        self.0.store(true, Ordering::SeqCst);
    }
    fn wake_by_ref(self: &Arc<Self>) {
        self.0.store(true, Ordering::SeqCst);
    }
}

struct StallDetectingRuntime;
impl AsyncRuntime for StallDetectingRuntime {
    fn block_on<F: Future>(&self, f: F) -> F::Output {
        let flag = Arc::new(FlagWaker(AtomicBool::new(false)));
        let waker = Waker::from(flag.clone());
        let mut cx = Context::from_waker(&waker);
        let mut f = pin!(f);
        for polls in 1..=10_000 {
            flag.0.store(false, Ordering::SeqCst);
            match f.as_mut().poll(&mut cx) {
                Poll::Ready(v) => return v,
                Poll::Pending => {
                    if !flag.0.load(Ordering::SeqCst) {
                        panic!(
                            "STALL: the future is Pending after {polls} poll(s) and no wake-up \
                             is scheduled: it never becomes ready"
                        );
                    }
                }
            }
        }
        panic!("the future is not ready after 10000 polls");
    }
}

const EXPECTED: fn() -> Outcome = || Outcome::Solved(vec![A1.0, B1.0]);

// ---------------------------------------------------------------------------
// Controls
// ---------------------------------------------------------------------------

/// Control 1: two solves on one solver, no cancellation. Both succeed and the
/// second does not ask the provider for candidates again.
#[test]
fn control_reuse_without_cancel() {
    let log = Log::default();
    let mut solver =
        Solver::new(Provider::new(log.clone(), false)).with_runtime(StallDetectingRuntime);
    let first = solve_caught(&mut solver);
    dump("control_reuse_without_cancel: after solve #1", &log);
    let second = solve_caught(&mut solver);
    dump("control_reuse_without_cancel: after solve #2", &log);
    println!("solve #1 = {first:?}\nsolve #2 = {second:?}");
    assert_eq!(first, EXPECTED());
    assert_eq!(second, EXPECTED());
    assert_eq!(count(&log, "get_candidates(A) called"), 1);
    assert_eq!(count(&log, "get_candidates(B) called"), 1);
}

/// Control 2: the first solver is cancelled, a FRESH solver is used for the
/// second solve: this is the verdict that the reused solver has to give.
#[test]
fn control_fresh_solver_after_cancel() {
    let log = Log::default();
    let mut solver =
        Solver::new(Provider::new(log.clone(), true)).with_runtime(StallDetectingRuntime);
    let first = solve_caught(&mut solver);
    dump(
        "control_fresh_solver_after_cancel: solve #1 (cancelled)",
        &log,
    );
    assert_eq!(first, Outcome::Cancelled("cancelled!".into()));

    let log2 = Log::default();
    let mut fresh =
        Solver::new(Provider::new(log2.clone(), false)).with_runtime(StallDetectingRuntime);
    let second = solve_caught(&mut fresh);
    dump(
        "control_fresh_solver_after_cancel: solve #2 on a fresh solver",
        &log2,
    );
    println!("solve #1 = {first:?}\nsolve #2 (fresh) = {second:?}");
    assert_eq!(second, EXPECTED());
}

// ---------------------------------------------------------------------------
// The reproduction
// ---------------------------------------------------------------------------

/// Solve #1 is cancelled while `get_candidates(B)` is suspended; solve #2 on
/// the SAME solver (cancellation does not fire any more) must give what a
/// fresh solver gives.
#[test]
fn repro_reuse_after_cancel_stall_detecting_executor() {
    let log = Log::default();
    let mut solver =
        Solver::new(Provider::new(log.clone(), true)).with_runtime(StallDetectingRuntime);

    let first = solve_caught(&mut solver);
    dump("repro: after solve #1", &log);
    println!("solve #1 = {first:?}");
    assert_eq!(first, Outcome::Cancelled("cancelled!".into()));
    // the interleaving that is needed really happened
    assert_eq!(count(&log, "get_candidates(B) suspends (Pending)"), 1);
    assert_eq!(count(&log, "get_candidates(B) returns"), 0);

    let second = solve_caught(&mut solver);
    dump("repro: after solve #2 (same solver)", &log);
    println!("solve #2 = {second:?}");
    assert_eq!(
        second,
        EXPECTED(),
        "solve #2 on the reused solver must give the verdict of a fresh solver"
    );
    // A was never obtained in solve #1 (the cancel fired before it was
    // requested) and B's request was dropped, so both are requested (again).
    assert_eq!(count(&log, "get_candidates(B) returns"), 1);

    // and a third solve does not request anything again
    let third = solve_caught(&mut solver);
    assert_eq!(third, EXPECTED());
    assert_eq!(count(&log, "get_candidates(A) returns"), 1);
    assert_eq!(count(&log, "get_candidates(B) returns"), 1);
}

/// The same with the tokio runtime that the crate ships an `AsyncRuntime`
/// implementation for. The solver is not `Send`, so everything lives in a
/// worker thread; the test thread is the watchdog.
#[test]
fn repro_reuse_after_cancel_tokio_watchdog() {
    let (tx, rx) = mpsc::channel::<(usize, Outcome)>();
    let log = Log::default();
    let thread_log = log.clone();
    std::thread::spawn(move || {
        let runtime = tokio::runtime::Builder::new_current_thread()
            .build()
            .unwrap();
        let mut solver = Solver::new(Provider::new(thread_log, true)).with_runtime(runtime);
        let _ = tx.send((1, solve_caught(&mut solver)));
        let _ = tx.send((2, solve_caught(&mut solver)));
    });

    let first = rx.recv_timeout(Duration::from_secs(5)).expect("solve #1");
    println!("tokio: solve #1 = {:?}", first.1);
    assert_eq!(first, (1, Outcome::Cancelled("cancelled!".into())));

    let second = rx.recv_timeout(Duration::from_secs(5));
    dump(
        "tokio: provider log when the watchdog gave up / solve #2 returned",
        &log,
    );
    match second {
        Ok((_, o)) => {
            println!("tokio: solve #2 = {o:?}");
            assert_eq!(o, EXPECTED());
        }
        Err(e) => panic!(
            "tokio: solve #2 on the reused solver did not terminate within 5 s ({e:?}): HANG"
        ),
    }
}

/// The in-flight bookkeeping seen through the public `SolverCache` API (this
/// is what a provider can reach from `sort_candidates`): request R1 for B is
/// suspended in the provider, request R2 for B waits for R1, then R1 is
/// dropped. R2 (or any later request R3) has to produce the candidates.
#[test]
fn repro_cache_waiter_survives_dropped_fetcher() {
    let log = Log::default();
    let cache = SolverCache::new(Provider::new(log.clone(), false));

    let flag = Arc::new(FlagWaker(AtomicBool::new(false)));
    let waker = Waker::from(flag.clone());
    let mut cx = Context::from_waker(&waker);

    let mut r1 = Box::pin(cache.get_or_cache_candidates(B));
    let mut r2 = Box::pin(cache.get_or_cache_candidates(B));
    assert!(r1.as_mut().poll(&mut cx).is_pending()); // suspended in the provider
    assert!(r2.as_mut().poll(&mut cx).is_pending()); // waits for r1
    drop(r1);

    // r2 must now be able to finish (it has to fetch the candidates itself)
    let mut r2_result = None;
    for _ in 0..10 {
        if let Poll::Ready(r) = r2.as_mut().poll(&mut cx) {
            r2_result = Some(r.map(|c| c.candidates.clone()).map_err(|_| "cancelled"));
            break;
        }
    }
    dump("cache: provider log", &log);
    println!("cache: r2 = {r2_result:?}");

    // and so must a brand new request
    let mut r3 = Box::pin(cache.get_or_cache_candidates(B));
    let mut r3_result = None;
    for _ in 0..10 {
        if let Poll::Ready(r) = r3.as_mut().poll(&mut cx) {
            r3_result = Some(r.map(|c| c.candidates.clone()).map_err(|_| "cancelled"));
            break;
        }
    }
    println!("cache: r3 = {r3_result:?}");
    assert_eq!(
        r2_result,
        Some(Ok(vec![B1])),
        "waiter r2 never becomes ready"
    );
    assert_eq!(
        r3_result,
        Some(Ok(vec![B1])),
        "new request r3 never becomes ready"
    );
}
