//! Demonstration of D7 (C04): a soft-requirement solvable that the provider excludes trips a debug_assert.
//!
//! Property C01: a returned solution never contains a solvable that the
//! provider excluded, whatever dependency-availability hints the provider
//! gives and however lazily metadata was fetched.
//!
//! Run with:
//!
//! ```text
//! CARGO_TARGET_DIR=/tmp/seed-C01b/target cargo test --offline --test seed_c01b
//! ```

use std::{
    any::Any,
    collections::{BTreeMap, BTreeSet},
    fmt::Display,
};

use resolvo::{
    Candidates, Dependencies, DependencyProvider, HintDependenciesAvailable, Interner,
    KnownDependencies, NameId, Problem, Requirement, SolvableId, Solver, SolverCache, StringId,
    VersionSetId, VersionSetUnionId,
};

/// A tiny table driven provider. A version set is a package name plus the list
/// of versions that match it.
#[derive(Default)]
struct TableProvider {
    names: Vec<&'static str>,
    /// (name, version) per solvable
    solvables: Vec<(NameId, u32)>,
    /// (name, matching versions) per version set
    version_sets: Vec<(NameId, Vec<u32>)>,
    /// requirements per solvable
    requirements: BTreeMap<SolvableId, Vec<VersionSetId>>,
    /// solvables that the provider reports as excluded
    excluded: BTreeSet<SolvableId>,
    /// packages for which the provider hints that the dependencies of all
    /// candidates are cheaply available
    hinted: BTreeSet<NameId>,
}

impl TableProvider {
    fn name(&mut self, name: &'static str) -> NameId {
        if let Some(idx) = self.names.iter().position(|n| *n == name) {
            return NameId(idx as u32);
        }
        self.names.push(name);
        NameId(self.names.len() as u32 - 1)
    }

    fn solvable(&mut self, name: &'static str, version: u32) -> SolvableId {
        let name = self.name(name);
        if let Some(idx) = self.solvables.iter().position(|s| *s == (name, version)) {
            return SolvableId(idx as u32);
        }
        self.solvables.push((name, version));
        SolvableId(self.solvables.len() as u32 - 1)
    }

    fn version_set(&mut self, name: &'static str, versions: &[u32]) -> VersionSetId {
        let name = self.name(name);
        let entry = (name, versions.to_vec());
        if let Some(idx) = self.version_sets.iter().position(|v| *v == entry) {
            return VersionSetId(idx as u32);
        }
        self.version_sets.push(entry);
        VersionSetId(self.version_sets.len() as u32 - 1)
    }

    /// Adds a package with requirements given as `(name, matching versions)`.
    fn package(&mut self, name: &'static str, version: u32, deps: &[(&'static str, &[u32])]) {
        let solvable = self.solvable(name, version);
        let deps = deps
            .iter()
            .map(|(name, versions)| self.version_set(name, versions))
            .collect();
        self.requirements.insert(solvable, deps);
    }

    fn matches(&self, solvable: SolvableId, version_set: VersionSetId) -> bool {
        let (name, version) = self.solvables[solvable.0 as usize];
        let (vs_name, versions) = &self.version_sets[version_set.0 as usize];
        name == *vs_name && versions.contains(&version)
    }

    fn show(&self, solvable: SolvableId) -> String {
        let (name, version) = self.solvables[solvable.0 as usize];
        format!("{}={}", self.names[name.0 as usize], version)
    }
}

impl Interner for TableProvider {
    fn display_solvable(&self, solvable: SolvableId) -> impl Display + '_ {
        self.show(solvable)
    }

    fn display_name(&self, name: NameId) -> impl Display + '_ {
        self.names[name.0 as usize]
    }

    fn display_version_set(&self, version_set: VersionSetId) -> impl Display + '_ {
        format!("{:?}", self.version_sets[version_set.0 as usize].1)
    }

    fn display_string(&self, _string_id: StringId) -> impl Display + '_ {
        "excluded by the provider"
    }

    fn version_set_name(&self, version_set: VersionSetId) -> NameId {
        self.version_sets[version_set.0 as usize].0
    }

    fn solvable_name(&self, solvable: SolvableId) -> NameId {
        self.solvables[solvable.0 as usize].0
    }

    fn version_sets_in_union(
        &self,
        _version_set_union: VersionSetUnionId,
    ) -> impl Iterator<Item = VersionSetId> {
        std::iter::empty()
    }
}

impl DependencyProvider for TableProvider {
    async fn filter_candidates(
        &self,
        candidates: &[SolvableId],
        version_set: VersionSetId,
        inverse: bool,
    ) -> Vec<SolvableId> {
        candidates
            .iter()
            .copied()
            .filter(|&s| self.matches(s, version_set) != inverse)
            .collect()
    }

    async fn get_candidates(&self, name: NameId) -> Option<Candidates> {
        let candidates: Vec<SolvableId> = (0..self.solvables.len() as u32)
            .map(SolvableId)
            .filter(|s| self.solvables[s.0 as usize].0 == name)
            .collect();
        if candidates.is_empty() {
            return None;
        }
        Some(Candidates {
            excluded: candidates
                .iter()
                .copied()
                .filter(|s| self.excluded.contains(s))
                .map(|s| (s, StringId(0)))
                .collect(),
            hint_dependencies_available: if self.hinted.contains(&name) {
                HintDependenciesAvailable::All
            } else {
                HintDependenciesAvailable::None
            },
            candidates,
            ..Candidates::default()
        })
    }

    async fn sort_candidates(&self, _solver: &SolverCache<Self>, solvables: &mut [SolvableId]) {
        // Highest version first.
        solvables.sort_by_key(|s| std::cmp::Reverse(self.solvables[s.0 as usize].1));
    }

    async fn get_dependencies(&self, solvable: SolvableId) -> Dependencies {
        Dependencies::Known(KnownDependencies {
            requirements: self
                .requirements
                .get(&solvable)
                .into_iter()
                .flatten()
                .map(|&vs| Requirement::Single(vs))
                .collect(),
            constrains: Vec::new(),
        })
    }

    fn should_cancel_with_value(&self) -> Option<Box<dyn Any>> {
        None
    }
}



#[test]
fn excluded_soft_requirement_does_not_panic() {
    let mut p = TableProvider::default();
    // the soft requirement asks for `x 1`, which needs `y`, which in turn needs some `x`
    p.package("x", 1, &[("y", &[1])]);
    p.package("x", 2, &[]);
    p.package("y", 1, &[("x", &[1, 2])]);
    p.package("a", 1, &[]);
    // ... but the provider excludes `x 1`
    let x1 = p.solvable("x", 1);
    p.excluded.insert(x1);
    let root = vec![p.version_set("a", &[1])];
    let mut solver = Solver::new(p);
    let problem = Problem::new()
        .requirements(root.iter().map(|&vs| Requirement::Single(vs)).collect())
        .soft_requirements(vec![x1]);
    let solution = solver.solve(problem).expect("the hard problem has a solution: a 1");
    let mut shown: Vec<String> = solution.iter().map(|&s| solver.provider().show(s)).collect();
    shown.sort();
    assert!(shown.contains(&"a=1".to_string()));
    assert!(!shown.contains(&"x=1".to_string()), "an excluded solvable was selected: {shown:?}");
}
