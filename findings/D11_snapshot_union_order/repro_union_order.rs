//! Repro: `DependencySnapshot` stores the members of a `Requirement::Union` in an
//! `ahash::HashSet<VersionSetId>` (src/snapshot.rs:93, filled at src/snapshot.rs:239-252,
//! read back at src/snapshot.rs:448-458).  The member ORDER of the provider is lost and is
//! replaced by a per-HashSet random iteration order.  The solver tries the candidates of a
//! union in member order (src/solver/cache.rs:268-281), so
//!   * solving through the snapshot picks a different solution than the provider,
//!   * two snapshots of the same provider (or one snapshot before/after a serde_json round
//!     trip) disagree with each other,
//!   * `Interner::version_sets_in_union` documents "the order in which the version sets are
//!     returned is deterministic" (src/lib.rs:95-97), which the snapshot provider violates.
//!
//! Data:   a=1 requires "b | c";  b=1;  c=1;  problem: a
//! Provider solution: a=1, b=1 (always).  Snapshot: a=1, b=1 or a=1, c=1, at random.
use std::{collections::BTreeMap, fmt::Display};

use resolvo::{
    Candidates, Dependencies, DependencyProvider, Interner, KnownDependencies, NameId, Problem,
    Requirement, SolvableId, Solver, SolverCache, StringId, VersionSetId, VersionSetUnionId,
    snapshot::DependencySnapshot,
    utils::{Pool, VersionSet},
};

#[derive(Clone, Debug, PartialEq, Eq, Hash)]
struct R(u32, u32);
impl VersionSet for R {
    type V = u32;
}
impl Display for R {
    fn fmt(&self, f: &mut std::fmt::Formatter<'_>) -> std::fmt::Result {
        write!(f, "{}..{}", self.0, self.1)
    }
}

#[derive(Default)]
struct P {
    pool: Pool<R, String>,
    candidates: BTreeMap<NameId, Candidates>,
    deps: BTreeMap<SolvableId, KnownDependencies>,
}

impl P {
    fn name(&self, n: &str) -> NameId {
        self.pool.intern_package_name(n.to_string())
    }
    fn solvable(&mut self, n: &str, v: u32) -> SolvableId {
        let name = self.name(n);
        let s = self.pool.intern_solvable(name, v);
        self.candidates.entry(name).or_default().candidates.push(s);
        self.deps.insert(s, Default::default());
        s
    }
    fn vs(&self, n: &str, lo: u32, hi: u32) -> VersionSetId {
        self.pool.intern_version_set(self.name(n), R(lo, hi))
    }
    fn union(&self, m: &[VersionSetId]) -> VersionSetUnionId {
        self.pool
            .intern_version_set_union(m[0], m[1..].iter().copied())
    }
    fn show(&self, s: &[SolvableId]) -> Vec<String> {
        s.iter().map(|s| self.display_solvable(*s).to_string()).collect()
    }
}

impl Interner for P {
    fn display_solvable(&self, s: SolvableId) -> impl Display + '_ {
        let s = self.pool.resolve_solvable(s);
        format!("{}={}", self.pool.resolve_package_name(s.name), s.record)
    }
    fn display_name(&self, name: NameId) -> impl Display + '_ {
        self.pool.resolve_package_name(name).clone()
    }
    fn display_version_set(&self, vs: VersionSetId) -> impl Display + '_ {
        self.pool.resolve_version_set(vs).clone()
    }
    fn display_string(&self, s: StringId) -> impl Display + '_ {
        self.pool.resolve_string(s).to_owned()
    }
    fn version_set_name(&self, vs: VersionSetId) -> NameId {
        self.pool.resolve_version_set_package_name(vs)
    }
    fn solvable_name(&self, s: SolvableId) -> NameId {
        self.pool.resolve_solvable(s).name
    }
    fn version_sets_in_union(&self, u: VersionSetUnionId) -> impl Iterator<Item = VersionSetId> {
        self.pool.resolve_version_set_union(u)
    }
}

impl DependencyProvider for P {
    async fn filter_candidates(
        &self,
        candidates: &[SolvableId],
        vs: VersionSetId,
        inverse: bool,
    ) -> Vec<SolvableId> {
        let r = self.pool.resolve_version_set(vs);
        candidates
            .iter()
            .copied()
            .filter(|s| {
                let v = self.pool.resolve_solvable(*s).record;
                (r.0 <= v && v < r.1) != inverse
            })
            .collect()
    }
    async fn get_candidates(&self, name: NameId) -> Option<Candidates> {
        self.candidates.get(&name).cloned()
    }
    async fn sort_candidates(&self, _: &SolverCache<Self>, solvables: &mut [SolvableId]) {
        // highest version first
        solvables.sort_by_key(|s| std::cmp::Reverse(self.pool.resolve_solvable(*s).record));
    }
    async fn get_dependencies(&self, s: SolvableId) -> Dependencies {
        Dependencies::Known(self.deps[&s].clone())
    }
}

struct Ids {
    a_any: VersionSetId,
    union: VersionSetUnionId,
    members: Vec<VersionSetId>,
}

/// a=1 requires "b | c";  b=1;  c=1
fn provider() -> (P, Ids) {
    let mut p = P::default();
    let a1 = p.solvable("a", 1);
    p.solvable("b", 1);
    p.solvable("c", 1);
    let members = vec![p.vs("b", 0, 100), p.vs("c", 0, 100)];
    let union = p.union(&members);
    p.deps.get_mut(&a1).unwrap().requirements = vec![Requirement::Union(union)];
    let a_any = p.vs("a", 0, 100);
    (
        p,
        Ids {
            a_any,
            union,
            members,
        },
    )
}

fn solve_direct() -> Vec<String> {
    let (p, ids) = provider();
    let mut solver = Solver::new(p);
    let sol = solver
        .solve(Problem::new().requirements(vec![ids.a_any.into()]))
        .unwrap();
    solver.provider().show(&sol)
}

fn snapshot() -> (DependencySnapshot, Ids) {
    let (p, ids) = provider();
    let names = ["a", "b", "c"].map(|n| p.name(n));
    (
        DependencySnapshot::from_provider(p, names, [ids.a_any], []).unwrap(),
        ids,
    )
}

fn solve_snapshot(snapshot: &DependencySnapshot, a_any: VersionSetId) -> Vec<String> {
    let mut solver = Solver::new(snapshot.provider());
    let sol = solver
        .solve(Problem::new().requirements(vec![a_any.into()]))
        .unwrap();
    sol.iter()
        .map(|s| solver.provider().display_solvable(*s).to_string())
        .collect()
}

const ROUNDS: usize = 64;

/// The provider always answers [a=1, b=1]; a snapshot of it answers [a=1, c=1] about every
/// second time.
#[test]
fn snapshot_gives_the_solution_of_the_provider() {
    let direct = solve_direct();
    assert_eq!(direct, ["a=1", "b=1"]);
    assert_eq!(direct, solve_direct(), "the provider itself is reproducible");
    let mut seen = BTreeMap::<Vec<String>, usize>::new();
    for _ in 0..ROUNDS {
        let (snapshot, ids) = snapshot();
        *seen.entry(solve_snapshot(&snapshot, ids.a_any)).or_default() += 1;
    }
    assert_eq!(
        seen.keys().collect::<Vec<_>>(),
        [&direct],
        "solutions through {ROUNDS} snapshots of the same provider (solution -> count): {seen:?}"
    );
}

/// `version_sets_in_union` of the snapshot provider must yield the members in the provider's order.
#[test]
fn snapshot_keeps_the_member_order_of_a_union() {
    for round in 0..ROUNDS {
        let (snapshot, ids) = snapshot();
        let got: Vec<VersionSetId> = snapshot
            .provider()
            .version_sets_in_union(ids.union)
            .collect();
        assert_eq!(got, ids.members, "round {round}");
    }
}

/// One and the same snapshot, serialized and deserialized again, must solve identically.
#[test]
fn serde_round_trip_keeps_the_solution() {
    let (snapshot, ids) = snapshot();
    let before = solve_snapshot(&snapshot, ids.a_any);
    let json = serde_json::to_string(&snapshot).unwrap();
    let mut seen = BTreeMap::<Vec<String>, usize>::new();
    for _ in 0..ROUNDS {
        let back: DependencySnapshot = serde_json::from_str(&json).unwrap();
        *seen.entry(solve_snapshot(&back, ids.a_any)).or_default() += 1;
    }
    assert_eq!(
        seen.keys().collect::<Vec<_>>(),
        [&before],
        "solutions after deserializing the same JSON {ROUNDS} times: {seen:?}"
    );
}

/// Two snapshots of the same provider must serialize to the same JSON (the order of the
/// `HashSet`s `version_set_unions[..]` and `version_sets[..].matching_candidates` leaks).
#[test]
fn serialized_snapshot_is_reproducible() {
    let first = serde_json::to_string(&snapshot().0).unwrap();
    for round in 0..ROUNDS {
        let again = serde_json::to_string(&snapshot().0).unwrap();
        assert_eq!(first, again, "round {round}");
    }
}
