//! Kani harnesses overlaid on a scratch copy of the crate (`#[cfg(kani)] mod verif_kani;` is appended to the
//! copy's src/solver/mod.rs).  Loop-free harnesses over full-domain symbolic inputs are complete proofs.
#![allow(unused)]
use crate::internal::arena::ArenaId;
use crate::internal::id::{ClauseId, SolvableId, SolvableOrRootId, VariableId};
use crate::solver::clause::Literal;
use crate::solver::decision_map::DecisionMap;

/// largest variable index for which Literal::new cannot overflow u32: ((idx << 1) | 1) + 1 <= u32::MAX
const MAX_VAR: usize = 0x7fff_fffe;

#[kani::proof]
fn lit_new_roundtrip() {
    let idx: usize = kani::any();
    kani::assume(idx < MAX_VAR);
    let negate: bool = kani::any();
    let v = VariableId::from_usize(idx);
    kani::cover!(true);
    let lit = Literal::new(v, negate);
    assert!(lit.variable() == v);
    assert!(lit.negate() == negate);
    assert!(lit.satisfying_value() == !negate);
    // the encoding is injective: to_usize is (idx << 1) | negate
    assert!(lit.to_usize() == (idx << 1 | negate as usize));
}

#[kani::proof]
fn lit_positive_negative() {
    let idx: usize = kani::any();
    kani::assume(idx < MAX_VAR);
    let v = VariableId::from_usize(idx);
    kani::cover!(true);
    let p = v.positive();
    let n = v.negative();
    assert!(p != n);
    assert!(p.variable() == v && n.variable() == v);
    assert!(!p.negate() && n.negate());
    assert!(p.satisfying_value() && !n.satisfying_value());
}

#[kani::proof]
fn lit_eq_iff_same_variable_and_polarity() {
    let a: usize = kani::any();
    let b: usize = kani::any();
    kani::assume(a < MAX_VAR && b < MAX_VAR);
    let na: bool = kani::any();
    let nb: bool = kani::any();
    kani::cover!(true);
    let la = Literal::new(VariableId::from_usize(a), na);
    let lb = Literal::new(VariableId::from_usize(b), nb);
    assert!((la == lb) == (a == b && na == nb));
}

#[kani::proof]
fn lit_from_to_usize() {
    let x: usize = kani::any();
    kani::assume(x < u32::MAX as usize);
    kani::cover!(true);
    assert!(Literal::from_usize(x).to_usize() == x);
}

#[kani::proof]
fn clause_id_roundtrip() {
    let x: usize = kani::any();
    kani::assume(x < u32::MAX as usize);
    kani::cover!(true);
    let id = ClauseId::from_usize(x);
    assert!(id.to_usize() == x);
    assert!(ClauseId::install_root().to_usize() == 0);
}

#[kani::proof]
fn solvable_or_root_roundtrip() {
    let x: u32 = kani::any();
    kani::assume(x < u32::MAX);
    kani::cover!(true);
    let s = SolvableId(x);
    let sr: SolvableOrRootId = s.into();
    assert!(!sr.is_root());
    assert!(sr.solvable() == Some(s));
    assert!(SolvableOrRootId::root().is_root());
    assert!(SolvableOrRootId::root().solvable().is_none());
}

/// eval(lit) == Some(true) iff the assigned value equals satisfying_value; None iff unassigned.
/// The map is built by one real `set` call on a small concrete index (the resize loop is bounded by it);
/// value, level and the literal's polarity are symbolic.
#[kani::proof]
#[kani::unwind(6)]
fn lit_eval_semantics() {
    let idx: usize = kani::any();
    kani::assume(idx < 3);
    let value: bool = kani::any();
    let level: u32 = kani::any();
    kani::assume(level >= 1 && level <= i32::MAX as u32);
    let negate: bool = kani::any();
    let v = VariableId::from_usize(idx);
    let mut map = DecisionMap::default();
    let lit = Literal::new(v, negate);
    assert!(lit.eval(&map).is_none());
    map.set(v, value, level);
    kani::cover!(true);
    assert!(map.value(v) == Some(value));
    assert!(map.level(v) == level);
    assert!(lit.eval(&map) == Some(value == lit.satisfying_value()));
    let other = VariableId::from_usize(idx + 1);
    assert!(Literal::new(other, negate).eval(&map).is_none());
}

#[kani::proof]
fn clause_id_eq() {
    let a: usize = kani::any();
    let b: usize = kani::any();
    kani::assume(a < u32::MAX as usize && b < u32::MAX as usize);
    kani::cover!(true);
    assert!((ClauseId::from_usize(a) == ClauseId::from_usize(b)) == (a == b));
}

// NOTE: a bounded harness for WatchedLiterals::requires (<= 3 candidates, symbolic assignments built through the
// real DecisionTracker) was tried and dropped: CBMC exhausted 62 GB on it (Vec growth + iterator adapters), as
// for every other harness of this crate with a symbolic collection.  Clause::requires stays not under contract.

// NOTE: the planned bounded stand-in for the *memory* half of C18 (hold `&arena[id0]`, allocate further elements,
// read through the reference under CBMC's pointer checks) was tried on the real Arena<StringId, u8> and dropped:
// 1 + 130 allocations (one chunk boundary) did not finish in 20 minutes, 1 + 6 allocations made CBMC abort at the
// 20 GB memory cap.  The aliasing question of C18 stays undecided (see DESIGN.md).
